#!/usr/bin/env python3
# usage: regadd.py <file.json>  — merge property specs from file into harness/registry.json
import json,sys
reg=json.load(open('/verif/harness/registry.json'))
new=json.load(open(sys.argv[1]))
reg.update(new)
json.dump(reg,open('/verif/harness/registry.json','w'),indent=1)
print(sorted(reg))
