#!/usr/bin/env python3
# Regenerates /verif/MANIFEST.json from the table below (kept in one place so it is always valid).
import json
BASE = "for m in $(cat /w/out/gomods.txt); do MF=$(cd /repo/$m && . /w/out/goenv.sh && gomodflag); (cd /repo/$m && go test $MF -json -vet=off -count=1 -timeout 25m ./...); done"
claimed = json.load(open('/verif/claims.json'))
allprops = [json.loads(l)['id'] for l in open('/verif/properties.jsonl')]
checks = []
for pid in allprops:
    c = claimed.get(pid)
    if not c or c.get('not_applicable'):
        continue
    checks.append({
        "property_id": pid,
        "quick_cmd": f"bin/check {pid} quick",
        "thorough_cmd": f"bin/check {pid} thorough",
        "evidence_file": f"/verif/evidence/{pid}.json",
        "replay_cmd_template": f"bin/check {pid} quick -replay {{path}}",
        "engine": "gosym",
        "level_claimed": {"category": "other", "text": c['text'], "design_ref": c.get('design_ref', 'DESIGN.md §4-' + pid)},
        "level_note": c['note'],
        "technique": c.get('technique', "bounded symbolic execution of the real Go code (go/ssa -> SMT bit-vectors, z3), native replay of models"),
    })
na = []
for pid in allprops:
    c = claimed.get(pid)
    if not c:
        na.append({"property_id": pid, "reason": "check not built yet in this session (see DESIGN.md §6a build order)"})
    elif c.get('not_applicable'):
        na.append({"property_id": pid, "reason": c['not_applicable']})
m = {
    "version": 1,
    "setup_cmd": "cd /verif/engine && GOFLAGS=-mod=mod GOPROXY=off GOTOOLCHAIN=local go build -o ../bin/gosym .",
    "hooks": {"guard": "verif", "enable": "harness files (//go:build verif) and the vh package are injected by go/packages and `go test -overlay` overlays from /verif/harness; nothing is written to /repo", "baseline_off_cmd": BASE, "source_commits": [], "add_only": True},
    "engines": [{"name": "gosym", "path": "/verif/engine", "serves_properties": [c['property_id'] for c in checks], "kind_free_text": "own go/ssa -> SMT-LIB2 bounded symbolic executor; z3 4.8.12 decides every branch, run-time check and assertion; counterexamples replayed natively"}],
    "checks": checks,
    "not_applicable": na,
    "notes": "Every verdict is a bounded solver verdict (level 'other'): see evidence coverage.bounds. Exit 0 holds / 1 VIOLATION (after native replay) / 2 inconclusive or encoder mismatch.",
}
json.dump(m, open('/verif/MANIFEST.json', 'w'), indent=1)
print("checks:", [c['property_id'] for c in checks], "n/a:", len(na))
