//go:build verif

package server

import (
	"net/http"
	"net/url"
	"strings"

	"github.com/janelia-flyem/dvid/datastore"
	"github.com/janelia-flyem/dvid/dvid"
	"github.com/janelia-flyem/dvid/storage"
	"github.com/janelia-flyem/dvid/zzverif/vh"
	"github.com/janelia-flyem/dvid/zzverif/vstore"
	"github.com/zenazn/goji/web"
)

// vSvc: a data service whose only behaviour is to record that the request reached its handler.
type vSvc struct {
	*datastore.Data
	served int
}

func (s *vSvc) Help() string                                            { return "" }
func (s *vSvc) DoRPC(datastore.Request, *datastore.Response) error      { return nil }
func (s *vSvc) DescribeTKeyClass(storage.TKeyClass) string              { return "" }
func (s *vSvc) ServeHTTP(dvid.UUID, *datastore.VersionedCtx, http.ResponseWriter, *http.Request) map[string]interface{} {
	s.served++
	return nil
}

type vRW struct {
	h      http.Header
	status int
	body   int
}

func (w *vRW) Header() http.Header         { return w.h }
func (w *vRW) Write(b []byte) (int, error) { w.body += len(b); return len(b), nil }
func (w *vRW) WriteHeader(code int)        { w.status = code }

func vIsMutatingMethod(m string) bool {
	l := strings.ToLower(m)
	return l == "post" || l == "put" || l == "delete"
}

// VerifC02_InstanceGate: the real instanceSelector middleware.  For every spelling of the HTTP method (symbolic
// bytes, any letter case), every endpoint keyword (symbolic), admin flag, server write mode, commit flag and
// versioned flag: a mutating method on a versioned instance at a committed version reaches the data type's handler
// only with the admin token or in full-write mode; reads and requests on open versions always reach it.
// Params: method length, keyword length.
func VerifC02_InstanceGate() {
	mlen, klen := vh.Param(0), vh.Param(1)
	uuid, _ := datastore.VerifInstallRootRepo(vstore.New(), dvid.VersionID(1+vh.U16("version")))
	versioned := vh.Bool("versioned")
	svc := &vSvc{Data: datastore.VerifNewData("d", 7, versioned)}
	datastore.VerifAddData(uuid, svc)
	locked := vh.Bool("committed")
	datastore.VerifSetLocked(uuid, locked)
	admin := vh.Bool("adminToken")
	fullwrite = vh.Bool("fullwrite")
	readonly = false
	interactiveOpsCh = make(chan bool, 4)

	method := vh.Str("method", mlen)
	for i := 0; i < mlen; i++ {
		vh.Assume(method[i] < 0x80)
	}
	keyword := vh.Str("keyword", klen)
	vh.Assume(keyword != "blobstore")
	c := &web.C{URLParams: map[string]string{"dataname": "d", "keyword": keyword}, Env: map[interface{}]interface{}{"uuid": uuid, "adminPriv": admin}}
	r := &http.Request{Method: method, URL: &url.URL{Path: WebAPIPath + "node/" + string(uuid) + "/d/" + keyword}, Header: http.Header{}}
	w := &vRW{h: http.Header{}}
	h := instanceSelector(c, http.HandlerFunc(func(http.ResponseWriter, *http.Request) {}))
	h.ServeHTTP(w, r)

	mustRefuse := versioned && locked && !admin && !fullwrite && vIsMutatingMethod(method)
	if mustRefuse {
		vh.Assert(svc.served == 0, "a mutating request on a committed version never reaches the data type's handler")
		vh.Assert(w.status == http.StatusBadRequest, "it is answered with a client error")
	} else {
		vh.Assert(svc.served == 1, "every other request reaches the data type's handler exactly once")
	}
	vh.Reach("end")
}

// VerifC02_NodeGate: the real nodeSelector / repoSelector middleware for node-level routes (note, log, commit, ...):
// on a committed node only GET/HEAD and the branch / newversion / tag actions pass without admin token or full-write
// mode; in read-only mode only GET/HEAD pass without the admin token.
// Params: method length, action length.
func VerifC02_NodeGate() {
	mlen, alen := vh.Param(0), vh.Param(1)
	uuid, _ := datastore.VerifInstallRootRepo(vstore.New(), dvid.VersionID(1+vh.U16("version")))
	locked := vh.Bool("committed")
	datastore.VerifSetLocked(uuid, locked)
	admin := vh.Bool("adminToken")
	fullwrite = vh.Bool("fullwrite")
	readonly = vh.Bool("readonly")
	method := vh.Str("method", mlen)
	for i := 0; i < mlen; i++ {
		vh.Assume(method[i] < 0x80)
	}
	action := vh.Str("action", alen)
	reached := 0
	inner := http.HandlerFunc(func(http.ResponseWriter, *http.Request) { reached++ })
	c := &web.C{URLParams: map[string]string{"uuid": string(uuid), "action": action}, Env: map[interface{}]interface{}{"adminPriv": admin}}
	r := &http.Request{Method: method, URL: &url.URL{Path: WebAPIPath + "node/" + string(uuid) + "/" + action}, Header: http.Header{}}
	w := &vRW{h: http.Header{}}
	repoSelector(c, nodeSelector(c, inner)).ServeHTTP(w, r)

	lm := strings.ToLower(method)
	isRead := lm == "get" || lm == "head"
	branching := action == "branch" || action == "newversion" || action == "tag"
	refuse := (!admin && readonly && !isRead) || (!admin && !fullwrite && locked && !branching && !isRead)
	if refuse {
		vh.Assert(reached == 0 && w.status == http.StatusBadRequest, "a state-changing node request on a committed node (or in read-only mode) is refused")
	} else {
		vh.Assert(reached == 1, "reads, branching requests and privileged requests pass")
	}
	vh.Reach("end")
}
