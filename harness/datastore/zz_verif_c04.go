//go:build verif

package datastore

import (
	"github.com/janelia-flyem/dvid/dvid"
	"github.com/janelia-flyem/dvid/zzverif/vh"
	"github.com/janelia-flyem/dvid/zzverif/vstore"
)

// vLoadable: a fresh manager starts on a copy of the store; crashAfter >= 0 kills that start-up after that many of its
// own metadata writes, and a further fresh manager starts on what is left ("second crash during recovery").
func vRestart(s *vstore.Store, crashAfter int) (*repoManager, error) {
	s2 := s.Clone()
	m2 := vBareManager(s2)
	m2.mutationIDStart = InitialMutationID
	if crashAfter >= 0 {
		s2.CrashAt = crashAfter
		vh.MapOrderDefault()
		m2.loadMetadata() // dies somewhere in here; whatever it answers is lost with it
		vh.MapOrderAll()
		s2 = s2.Clone()
		m2 = vBareManager(s2)
		m2.mutationIDStart = InitialMutationID
	}
	err := m2.loadMetadata()
	return m2, err
}

// VerifC04_MetadataCrash: the server dies immediately before any one metadata write of a repo-level request
// (new repo, commit, new version / branch, merge); the next start (real loadMetadata, every map iteration order)
// succeeds, every request acknowledged before is exactly as it was, the interrupted request is entirely present or
// entirely absent, and a request that was acknowledged with all its writes done is present.
// Params: acknowledged requests before the interrupted one; 1 = also crash the recovery start-up after k writes.
func VerifC04_MetadataCrash() {
	pre, second := vh.Param(0), vh.Param(1) == 1
	s := vstore.New()
	m := vBareManager(s)
	m.versionID = dvid.VersionID(vh.U32("versionCounter"))
	m.repoID, m.instanceID = 1, 1
	m.mutationIDStart = InitialMutationID
	vh.Assume(m.versionID >= 1 && m.versionID < 0xFFFFFF00)
	r, err := m.newRepo("alias", "desc", nil, "")
	vh.Assert(err == nil && r != nil, "newRepo succeeds")
	order := []dvid.UUID{r.uuid}
	b1 := vh.Str("branch1", 1)
	pick := func(name string) dvid.UUID { return order[vh.Choice(name, len(order))] }
	request := func(op int) (created dvid.UUID, target dvid.UUID, opErr error) {
		switch op {
		case 0:
			target = pick("commitNode")
			opErr = m.commit(target, "note", nil)
		case 1:
			branch := []string{"", b1}[vh.Choice("branch", 2)]
			created, opErr = m.newVersion(pick("parent"), "note", branch, nil)
		case 2:
			created, opErr = m.merge([]dvid.UUID{pick("mergeParent"), pick("mergeParent")}, "note", MergeConflictFree)
		default:
			var r2 *repoT
			r2, opErr = m.newRepo("second", "desc", nil, "")
			if r2 != nil {
				created = r2.uuid
			}
		}
		return
	}
	for st := 0; st < pre; st++ {
		created, _, opErr := request(vh.Choice("op", 3))
		if opErr == nil && created != dvid.NilUUID {
			order = append(order, created)
		}
	}
	snap := vSnapshot(m, r, order)
	repoID1 := r.id
	counters := [3]uint32{uint32(m.versionID), uint32(m.repoID), uint32(m.instanceID)}

	// the interrupted request: only the first `crashAfter` of its writes reach the store
	op := vh.Choice("crashOp", 4)
	w0 := s.Writes
	s.CrashAt = w0 + vh.Choice("crashAfter", 9)
	created, target, opErr := request(op)
	issued := s.Writes - w0
	acked := opErr == nil && s.Writes <= s.CrashAt
	var createdV dvid.VersionID
	if created != dvid.NilUUID {
		createdV = m.uuidToVersion[created]
	}
	vh.Observe("issued", uint64(issued))

	recoveryCrash := -1
	if second {
		recoveryCrash = vh.Choice("recoveryCrashAfter", 3)
	}
	vh.MapOrderAll()
	m2, lerr := vRestart(s, recoveryCrash)
	vh.MapOrderDefault()
	vh.Assert(lerr == nil, "the next start succeeds without manual repair")

	// everything acknowledged before the crash is exactly as it was (the interrupted request may have added to it)
	r2, found := m2.repos[r.uuid]
	vh.Assert(found && r2.uuid == r.uuid && r2.id == repoID1 && m2.repoToUUID[repoID1] == r.uuid, "an acknowledged repo is back")
	for i, u := range order {
		c := snap.nodes[i]
		v2, ok := m2.uuidToVersion[u]
		vh.Assert(ok && v2 == c.version && m2.versionToUUID[v2] == u && m2.repos[u] == r2, "an acknowledged version keeps its identity")
		n2 := r2.dag.nodes[v2]
		vh.Assert(n2 != nil && n2.uuid == u && n2.branch == c.branch && vSameIDs(n2.parents, c.parents), "an acknowledged version keeps its branch and parents")
		vh.Assert(!c.locked || n2.locked, "an acknowledged commit stays committed")
		if !(op == 0 && u == target) {
			vh.Assert(n2.locked == c.locked, "no version is committed that nobody asked to commit")
		}
		// children: as before, plus at most the interrupted request's node
		extra := 0
		for _, ch := range n2.children {
			was := false
			for _, old := range c.children {
				was = was || old == ch
			}
			if !was {
				vh.Assert(createdV != 0 && ch == createdV, "no child appears that no request created")
				extra++
			}
		}
		vh.Assert(len(n2.children) == len(c.children)+extra && extra <= 1, "acknowledged children are all still linked")
	}
	// the interrupted request is entirely present or entirely absent
	if op == 0 && acked {
		vh.Assert(r2.dag.nodes[m2.uuidToVersion[target]].locked, "an acknowledged commit is visible after restart")
	}
	if op == 1 || op == 2 {
		n2, inDAG := r2.dag.nodes[createdV]
		if createdV == 0 || opErr != nil {
			vh.Assert(len(r2.dag.nodes) == len(order), "a refused request adds nothing")
		} else if inDAG {
			vh.Assert(n2.uuid == created && m2.uuidToVersion[created] == createdV && m2.versionToUUID[createdV] == created && m2.repos[created] == r2,
				"a version that is present is registered under its UUID and version id")
			for _, p := range n2.parents {
				pn := r2.dag.nodes[p]
				linked := false
				if pn != nil {
					for _, ch := range pn.children {
						linked = linked || ch == createdV
					}
				}
				vh.Assert(linked && pn.locked, "a version that is present is linked under each of its committed parents")
			}
			vh.Assert(len(r2.dag.nodes) == len(order)+1, "exactly one version was added")
		} else {
			vh.Assert(!acked, "an acknowledged new version is visible after restart")
			vh.Assert(len(r2.dag.nodes) == len(order) && m2.repos[created] == nil, "a version that is absent is absent from the graph and cannot be opened")
		}
		vh.Assert(vWellFormedDAG(m2, r2), "the version graph is well formed after restart")
	}
	if op == 3 && created != dvid.NilUUID {
		rb, present := m2.repos[created]
		if present {
			vh.Assert(rb.uuid == created && m2.repoToUUID[rb.id] == created && rb.id != repoID1 && len(rb.dag.nodes) == 1 &&
				m2.uuidToVersion[created] == rb.dag.rootV && m2.versionToUUID[rb.dag.rootV] == created, "a repo that is present is complete")
		} else {
			vh.Assert(!acked, "an acknowledged new repo is visible after restart")
			for _, u := range m2.repoToUUID {
				vh.Assert(u != created, "a repo that is absent is not listed")
			}
		}
	}
	// identifiers handed out before the crash are never handed out again
	vh.Assert(uint32(m2.versionID) >= counters[0] && uint32(m2.repoID) >= counters[1] && uint32(m2.instanceID) >= counters[2], "id counters never go back")
	// (an id-map entry left by the interrupted request without a node was never handed to anyone; the start-up repair
	// compares with > rather than >=, so that one id may be taken again: DESIGN.md boundary note, not claimed here)
	for _, rp := range m2.repos {
		vh.Assert(rp.id < m2.repoID, "the next repo id is above every repo id in use")
		for v := range rp.dag.nodes {
			vh.Assert(v < m2.versionID, "the next version id is above the id of every version that exists")
		}
	}
	for u, v := range m2.uuidToVersion {
		vh.Assert(m2.versionToUUID[v] == u, "UUIDs and version ids stay in one-to-one correspondence")
	}
	vh.Reach("end")
}

// vWellFormedDAG: mirrored links, one root, every node registered, children only under committed parents
// (the per-repo part of vWellFormed; id-map entries without a node are tolerated: an interrupted request may leave one).
func vWellFormedDAG(m *repoManager, r *repoT) bool {
	roots := 0
	for v, n := range r.dag.nodes {
		if n.version != v {
			return false
		}
		if len(n.parents) == 0 {
			roots++
			if v != r.dag.rootV || n.uuid != r.dag.root {
				return false
			}
		}
		if m.versionToUUID[v] != n.uuid || m.uuidToVersion[n.uuid] != v || m.repos[n.uuid] != r {
			return false
		}
		for _, p := range n.parents {
			pn, ok := r.dag.nodes[p]
			if !ok || !pn.locked {
				return false
			}
			cnt := 0
			for _, c := range pn.children {
				if c == v {
					cnt++
				}
			}
			if cnt == 0 {
				return false
			}
		}
		for _, c := range n.children {
			cn, ok := r.dag.nodes[c]
			if !ok {
				return false
			}
			cnt := 0
			for _, p := range cn.parents {
				if p == v {
					cnt++
				}
			}
			if cnt == 0 {
				return false
			}
		}
	}
	return roots == 1
}
