//go:build verif

package datastore

import (
	"github.com/janelia-flyem/dvid/dvid"
	"github.com/janelia-flyem/dvid/storage"
	"github.com/janelia-flyem/dvid/zzverif/vh"
)

type storageStore = storage.OrderedKeyValueDB

// vData: minimal dvid.Data (only the instance id matters for key construction).
type vData struct {
	dvid.Data
	id dvid.InstanceID
}

func (d *vData) InstanceID() dvid.InstanceID { return d.id }

// vDAG is a concrete DAG shape over nodes 1..n (index 0 unused) with symbolic version ids.
type vDAG struct {
	n       int
	vids    []dvid.VersionID
	uuids   []dvid.UUID
	parents [][]int // node -> ordered parent nodes
}

// vChooseDAG explores every ordered-parent DAG shape on n nodes (node 1 is the root; parents are earlier nodes,
// 1..maxPar of them, distinct, order significant) and gives every node an arbitrary distinct non-zero version id.
// vConcreteVids: version ids are 1..n in creation order (what a server issues) instead of arbitrary distinct ids.
var vConcreteVids bool

func vChooseDAG(n, maxPar int) *vDAG {
	d := &vDAG{n: n, vids: make([]dvid.VersionID, n+1), uuids: make([]dvid.UUID, n+1), parents: make([][]int, n+1)}
	for i := 1; i <= n; i++ {
		if vConcreteVids {
			d.vids[i] = dvid.VersionID(i)
			d.uuids[i] = dvid.UUID(vh.Fresh("uuid"))
			continue
		}
		d.vids[i] = dvid.VersionID(vh.U32("vid"))
		vh.Assume(d.vids[i] != 0)
		for j := 1; j < i; j++ {
			vh.Assume(d.vids[i] != d.vids[j])
		}
		d.uuids[i] = dvid.UUID(vh.Fresh("uuid"))
	}
	for i := 2; i <= n; i++ {
		mp := maxPar
		if mp > i-1 {
			mp = i - 1
		}
		k := 1 + vh.Choice("arity", mp)
		for a := 0; a < k; a++ {
			p := 1 + vh.Choice("parent", i-1)
			for _, q := range d.parents[i] {
				vh.Assume(q != p)
			}
			d.parents[i] = append(d.parents[i], p)
		}
	}
	return d
}

// vChooseMergeDAG: nodes 2..n-1 each hang off one earlier node (all trees explored), node n merges maxPar distinct
// earlier nodes in every order.
func vChooseMergeDAG(n, maxPar, first int) *vDAG {
	d := &vDAG{n: n, vids: make([]dvid.VersionID, n+1), uuids: make([]dvid.UUID, n+1), parents: make([][]int, n+1)}
	for i := 1; i <= n; i++ {
		d.vids[i] = dvid.VersionID(vh.U32("vid"))
		vh.Assume(d.vids[i] != 0)
		for j := 1; j < i; j++ {
			vh.Assume(d.vids[i] != d.vids[j])
		}
		d.uuids[i] = dvid.UUID(vh.Fresh("uuid"))
	}
	for i := 2; i < n; i++ {
		d.parents[i] = []int{1 + vh.Choice("parent", i-1)}
	}
	for a := 0; a < maxPar; a++ {
		var p int
		if a == 0 && first > 0 {
			p = first // split across instances by the first merge parent
		} else {
			p = 1 + vh.Choice("mparent", n-1)
		}
		for _, q := range d.parents[n] {
			vh.Assume(q != p)
		}
		d.parents[n] = append(d.parents[n], p)
	}
	return d
}

// anc reports whether a is a proper ancestor of b.
func (d *vDAG) anc(a, b int) bool {
	for _, p := range d.parents[b] {
		if p == a || d.anc(a, p) {
			return true
		}
	}
	return false
}

// vInstall builds a repoManager holding one repo with this DAG and installs it as the package manager.
func (d *vDAG) vInstall(locked []bool) (*repoManager, *repoT) {
	m := &repoManager{
		repos:         make(map[dvid.UUID]*repoT),
		repoToUUID:    make(map[dvid.RepoID]dvid.UUID),
		versionToUUID: make(map[dvid.VersionID]dvid.UUID),
		uuidToVersion: make(map[dvid.UUID]dvid.VersionID),
		branchToUUID:  make(map[string]dvid.UUID),
		iids:          make(map[dvid.InstanceID]DataService),
		dataByUUID:    make(map[dvid.UUID]DataService),
		repoID:        2,
		instanceID:    1,
	}
	r := &repoT{id: 1, uuid: d.uuids[1], version: d.vids[1], properties: make(map[string]interface{}), data: make(map[dvid.InstanceName]DataService)}
	r.dag = &dagT{root: d.uuids[1], rootV: d.vids[1], nodes: make(map[dvid.VersionID]*nodeT)}
	nodes := make([]*nodeT, d.n+1)
	for i := 1; i <= d.n; i++ {
		nodes[i] = &nodeT{uuid: d.uuids[i], version: d.vids[i]}
		if locked != nil {
			nodes[i].locked = locked[i]
		}
		for _, p := range d.parents[i] {
			nodes[i].parents = append(nodes[i].parents, d.vids[p])
			nodes[p].children = append(nodes[p].children, d.vids[i])
		}
		r.dag.nodes[d.vids[i]] = nodes[i]
		m.repos[d.uuids[i]] = r
		m.versionToUUID[d.vids[i]] = d.uuids[i]
		m.uuidToVersion[d.uuids[i]] = d.vids[i]
	}
	m.repoToUUID[1] = d.uuids[1]
	manager = m
	return m, r
}

// VerifInstallRootRepo installs a manager holding one repo with a single, uncommitted root version over the given
// store and returns the root's UUID and version id (helper for harnesses living in data type packages).
func VerifInstallRootRepo(store interface{}, v dvid.VersionID) (dvid.UUID, dvid.VersionID) {
	d := &vDAG{n: 1, vids: []dvid.VersionID{0, v}, uuids: []dvid.UUID{"", "00000000000000000000000000000001"}, parents: make([][]int, 2)}
	m, r := d.vInstall(nil)
	if s, ok := store.(storageStore); ok {
		m.store = s
	}
	m.branchToUUID[string(r.uuid)+"master"] = r.uuid
	return r.uuid, v
}

// VerifNewData builds a bare data instance (helper for harnesses in other packages).
func VerifNewData(name dvid.InstanceName, id dvid.InstanceID, versioned bool) *Data {
	return &Data{name: name, id: id, unversioned: !versioned, dataUUID: "dddddddddddddddddddddddddddddddd"}
}

// VerifAddData registers a data service with the repo holding uuid; VerifSetLocked sets a node's commit flag.
func VerifAddData(uuid dvid.UUID, svc DataService) {
	r := manager.repos[uuid]
	r.data[svc.DataName()] = svc
	manager.iids[svc.InstanceID()] = svc
	if svc.DataUUID() != "" {
		manager.dataByUUID[svc.DataUUID()] = svc
	}
}

func VerifSetLocked(uuid dvid.UUID, locked bool) {
	r := manager.repos[uuid]
	r.dag.nodes[manager.uuidToVersion[uuid]].locked = locked
}

// VerifChooseDAG explores DAG shapes (see vChooseDAG), installs the manager and returns the version ids (index 1..n)
// together with the proper-ancestor relation, for harnesses living in data type packages.
func VerifChooseDAG(n, maxPar int) ([]dvid.VersionID, func(a, b int) bool) {
	d := vChooseDAG(n, maxPar)
	d.vInstall(nil)
	return d.vids, d.anc
}

// VerifSetCompression sets the serialization compression of a data instance (as a config of "Compression" does).
func VerifSetCompression(d *Data, format dvid.CompressionFormat) {
	d.compression, _ = dvid.NewCompression(format, dvid.DefaultCompression)
}
