//go:build verif

package datastore

import (
	"bytes"

	"github.com/janelia-flyem/dvid/dvid"
	"github.com/janelia-flyem/dvid/storage"
	dvidbadger "github.com/janelia-flyem/dvid/storage/badger"
	"github.com/janelia-flyem/dvid/zzverif/vh"
	"github.com/janelia-flyem/dvid/zzverif/vstore"
)

// VerifC11_NewVersion: two simultaneous new-version requests on one committed parent with the same branch name:
// under every interleaving (bounded preemptions) at most one succeeds, i.e. the parent never gets two children on
// one branch; the graph stays well formed.  Param 0: preemption bound.
func VerifC11_NewVersion() {
	s := vstore.New()
	m := vBareManager(s)
	m.versionID, m.repoID = 1, 1
	r, err := m.newRepo("a", "d", nil, "")
	vh.Assert(err == nil, "repo created")
	vh.Assert(m.commit(r.uuid, "c", nil) == nil, "root committed")
	branch := ""
	if vh.Choice("namedBranch", 2) == 1 {
		branch = "b"
	}
	var e1, e2 error
	var u1, u2 dvid.UUID
	vh.Schedule(vh.Param(0))
	go func() { u1, e1 = m.newVersion(r.uuid, "n1", branch, nil) }()
	go func() { u2, e2 = m.newVersion(r.uuid, "n2", branch, nil) }()
	vh.Quiesce()
	ok := 0
	if e1 == nil {
		ok++
	}
	if e2 == nil {
		ok++
	}
	vh.Assert(ok <= 1, "at most one of two simultaneous requests creates the child on one branch")
	vh.Assert(ok >= 1, "one of the requests succeeds")
	root := r.dag.nodes[r.version]
	same := 0
	for _, c := range root.children {
		if cn, found := r.dag.nodes[c]; found && cn.branch == branch {
			same++
		}
	}
	vh.Assert(same <= 1, "the parent has at most one child per branch name")
	_, _ = u1, u2
	vh.Reach("end")
}

// VerifC11_MutationID: concurrent mutation-id requests get distinct ids.
func VerifC11_MutationID() {
	s := vstore.New()
	vBareManager(s)
	r := &repoT{id: 1, uuid: "r"}
	start := vh.U64("start")
	vh.Assume(start < 1<<62)
	vh.Assert(r.initMutationID(s, start, false) == nil, "init")
	r.mutCurID += uint64(vh.Choice("advance", 2)) * (StrideMutationID - 1) // also at the stride boundary
	var a, b uint64
	ackA, ackB := false, false
	s.Writes = 0
	if vh.Param(1) == 1 {
		s.CrashAt = 0 // the process dies at the first store write attempted from now on
	}
	vh.Schedule(vh.Param(0))
	// an id counts as handed out if its call returned before the crashing write was attempted
	go func() { a = r.newMutationID(); ackA = s.Writes == 0 || s.CrashAt < 0 }()
	go func() { b = r.newMutationID(); ackB = s.Writes == 0 || s.CrashAt < 0 }()
	vh.Quiesce()
	vh.Assert(a != b, "two concurrent requests never get the same mutation id")
	if vh.Param(1) == 1 {
		r2 := &repoT{id: r.id, uuid: "r"}
		vh.Assert(r2.initMutationID(s.Clone(), start, false) == nil, "restart")
		vh.Assert(!ackA || r2.mutCurID > a, "an id handed out before the crash is not reissued after restart")
		vh.Assert(!ackB || r2.mutCurID > b, "an id handed out before the crash is not reissued after restart (second request)")
	}
	vh.Reach("end")
}

// VerifC11_PutDelete: an acknowledged versioned Put and Delete of one key running concurrently leave the key in
// one of the two states a sequential order would: the new value, or deleted (never the ancestor's value showing
// through, never both value and tombstone).
func VerifC11_PutDelete() {
	d := vChooseDAG(2, 1)
	d.vInstall(nil)
	db, model := dvidbadger.VerifNewModelDB()
	data := &vData{id: dvid.InstanceID(vh.U32("inst"))}
	tk := vUserTKey([]byte{vh.U8("key")})
	parent, child := NewVersionedCtx(data, d.vids[1]), NewVersionedCtx(data, d.vids[2])
	old, nv := []byte{vh.U8("old")}, []byte{vh.U8("new")}
	vh.Assert(db.Put(parent, tk, old) == nil, "ancestor value written")
	var e1, e2 error
	vh.Schedule(vh.Param(0))
	go func() { e1 = db.Put(child, tk, nv) }()
	go func() { e2 = db.Delete(child, tk) }()
	vh.Quiesce()
	vh.Assert(e1 == nil && e2 == nil, "both requests acknowledged")
	got, err := db.Get(child, tk)
	vh.Assert(err == nil, "read succeeds")
	vh.Assert(got == nil || bytes.Equal(got, nv), "the key reads as deleted or as the new value - some sequential order of the two requests")
	_, hasData := model.RawGet(child.ConstructKey(tk))
	_, hasTomb := model.RawGet(child.TombstoneKey(tk))
	vh.Assert(hasData != hasTomb, "exactly one of value and tombstone exists for the version")
	pv, _ := db.Get(parent, tk)
	vh.Assert(bytes.Equal(pv, old), "the ancestor still reads its own value")
	vDrain()
	_ = storage.MarkData
	vh.Reach("end")
}
