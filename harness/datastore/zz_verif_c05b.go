//go:build verif

package datastore

import (
	"bytes"

	"github.com/janelia-flyem/dvid/dvid"
	"github.com/janelia-flyem/dvid/storage"
	dvidbadger "github.com/janelia-flyem/dvid/storage/badger"
	"github.com/janelia-flyem/dvid/zzverif/vh"
)

// VerifC05_Unversioned: the same agreement between range / listing / streaming requests and point reads for an
// unversioned context (per-instance bookkeeping such as counters and label maxima): after a short history of puts
// and deletes of two datum keys, every interval query returns exactly the keys whose point read finds a value, once
// each, ascending, with that value; DeleteRange removes exactly the keys of the interval; a neighbouring instance's
// entry with the same datum key is never seen or touched.
// Params: writes (1..3).
func VerifC05_Unversioned() {
	writes := vh.Param(0)
	db, _ := dvidbadger.VerifNewModelDB()
	data := &vData{id: dvid.InstanceID(vh.U32("inst"))}
	other := &vData{id: dvid.InstanceID(vh.U32("otherInst"))}
	vh.Assume(data.id != other.id)
	ctx, octx := storage.NewDataContext(data, 0), storage.NewDataContext(other, 0)
	tks := []storage.TKey{vUserTKey([]byte{vh.U8("k1")}), vUserTKey([]byte{vh.U8("k2")})}
	vh.Assume(bytes.Compare(tks[0], tks[1]) < 0)
	vh.Assert(db.Put(octx, tks[0], []byte{vh.U8("otherValue")}) == nil, "neighbour write")
	cur := [2][]byte{}
	for w := 0; w < writes; w++ {
		k := vh.Choice("key", 2)
		if vh.Choice("isDelete", 2) == 1 {
			vh.Assert(db.Delete(ctx, tks[k]) == nil, "Delete succeeds")
			cur[k] = nil
		} else {
			val := []byte{vh.U8("value")}
			vh.Assert(db.Put(ctx, tks[k], val) == nil, "Put succeeds")
			cur[k] = val
		}
	}
	for k := 0; k < 2; k++ {
		got, err := db.Get(ctx, tks[k])
		vh.Assert(err == nil && bytes.Equal(got, cur[k]) && (got == nil) == (cur[k] == nil), "a point read returns the last value written, or nothing after a delete")
		ex, err := db.Exists(ctx, tks[k])
		vh.Assert(err == nil && ex == (cur[k] != nil), "Exists agrees with the point read")
	}
	lo, hi := storage.MinTKey(177), storage.MaxTKey(177)
	switch vh.Choice("interval", 4) {
	case 1:
		lo, hi = tks[0], tks[1]
	case 2:
		lo, hi = tks[1], tks[1]
	case 3:
		lo, hi = tks[1], tks[0]
	}
	inRange := func(k int) bool { return bytes.Compare(lo, tks[k]) <= 0 && bytes.Compare(tks[k], hi) <= 0 }
	keys, err := db.KeysInRange(ctx, lo, hi)
	vh.Assert(err == nil, "KeysInRange succeeds")
	kvs, err := db.GetRange(ctx, lo, hi)
	vh.Assert(err == nil && len(kvs) == len(keys), "keys-only and key-value variants list the same number of keys")
	want := 0
	for k := 0; k < 2; k++ {
		if inRange(k) && cur[k] != nil {
			vh.Assert(want < len(keys) && bytes.Equal(keys[want], tks[k]) && bytes.Equal(kvs[want].K, tks[k]) && bytes.Equal(kvs[want].V, cur[k]),
				"the listing holds exactly the keys of the interval with a value, ascending, each with its value")
			want++
		}
	}
	vh.Assert(want == len(keys), "nothing else is listed (no entry of the neighbouring instance)")
	kch := make(storage.KeyChan, 16)
	vh.Assert(db.SendKeysInRange(ctx, lo, hi, kch) == nil, "SendKeysInRange succeeds")
	si := 0
	for {
		fk := <-kch
		if fk == nil {
			break
		}
		tk, err := storage.TKeyFromKey(fk)
		vh.Assert(err == nil && si < len(keys) && bytes.Equal(tk, keys[si]), "the streamed keys are the listed keys, in order")
		si++
	}
	vh.Assert(si == len(keys), "the stream carries every listed key")

	vh.Assert(db.DeleteRange(ctx, lo, hi) == nil, "DeleteRange succeeds")
	for k := 0; k < 2; k++ {
		got, _ := db.Get(ctx, tks[k])
		if inRange(k) {
			vh.Assert(got == nil, "keys of the interval are gone after DeleteRange")
		} else {
			vh.Assert(bytes.Equal(got, cur[k]) && (got == nil) == (cur[k] == nil), "keys outside the interval are untouched")
		}
	}
	ov, err := db.Get(octx, tks[0])
	vh.Assert(err == nil && len(ov) == 1, "the neighbouring instance still reads its own entry")
	vDrain()
	vh.Reach("end")
}
