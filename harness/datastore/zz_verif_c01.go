//go:build verif

package datastore

import (
	"bytes"

	"github.com/janelia-flyem/dvid/dvid"
	"github.com/janelia-flyem/dvid/storage"
	"github.com/janelia-flyem/dvid/zzverif/vh"
)

func vB2I(b bool) int {
	if b {
		return 1
	}
	return 0
}

// VerifC01_Resolve: version resolution of one datum over every DAG shape of n nodes.
// Params: n (nodes), maxPar (max parents of a merge), mode (0: GetBestKeyVersion, 1: VersionedKeyValue),
// shape (0: every arity vector; 1: nodes 2..n-1 have one parent and node n is a merge of maxPar parents),
// query (0: every node; 1: the last node only), first merge parent (0: any; k: node k; splits the work across instances).
func VerifC01_Resolve() {
	n, maxPar, mode, shape, qsel := vh.Param(0), vh.Param(1), vh.Param(2), vh.Param(3), vh.Param(4)
	var d *vDAG
	if shape == 0 {
		d = vChooseDAG(n, maxPar)
	} else {
		d = vChooseMergeDAG(n, maxPar, vh.Param(5))
	}
	d.vInstall(nil)

	// which nodes hold an entry for the datum (explored), and whether it is a value or a deletion (symbolic marker)
	present := make([]bool, n+1)
	isVal := make([]bool, n+1)
	vals := make([]byte, n+1)
	for i := 1; i <= n; i++ {
		present[i] = vh.Choice("present", 2) == 1
	}
	q := n
	if qsel == 0 {
		q = 1 + vh.Choice("query", n)
	}
	inst := vh.U32("inst")
	tk := storage.TKey(vh.Bytes("tk", 3))
	ctx := NewVersionedCtx(&vData{id: dvid.InstanceID(inst)}, d.vids[q])
	ctx.DataContext = storage.NewDataContext(&vData{id: dvid.InstanceID(inst)}, d.vids[q])

	type ent struct {
		node int
		kv   *storage.KeyValue
	}
	var ents []ent
	for i := 1; i <= n; i++ {
		if !present[i] {
			continue
		}
		marker := byte(storage.MarkData)
		if vh.Bool("tombstone") {
			marker = storage.MarkTombstone
		}
		isVal[i] = marker == storage.MarkData
		key := ctx.ConstructKeyVersion(tk, d.vids[i])
		key[len(key)-1] = marker
		vals[i] = vh.U8("val")
		ents = append(ents, ent{i, &storage.KeyValue{K: key, V: []byte{vals[i]}}})
	}
	// arbitrary order in which the store returns the per-version entries: rotation and optional reversal
	// (every order for <= 3 entries)
	if len(ents) > 1 {
		rot := vh.Choice("rot", len(ents))
		ents = append(ents[rot:], ents[:rot]...)
		if vh.Choice("rev", 2) == 1 {
			for a, b := 0, len(ents)-1; a < b; a, b = a+1, b-1 {
				ents[a], ents[b] = ents[b], ents[a]
			}
		}
	}

	// reference: candidates are entries at q or its ancestors not dominated by another such entry;
	// live = candidates that are values.
	inScope := func(i int) bool { return present[i] && (i == q || d.anc(i, q)) }
	liveCount, liveNode := 0, 0
	for i := 1; i <= n; i++ {
		if !inScope(i) {
			continue
		}
		dominated := false
		for j := 1; j <= n; j++ {
			if j != i && inScope(j) && d.anc(i, j) {
				dominated = true
			}
		}
		if !dominated {
			liveCount += vB2I(isVal[i])
			if isVal[i] {
				liveNode = i
			}
		}
	}

	var gotKey storage.Key
	var gotVal []byte
	var err error
	if mode == 0 {
		keys := make([]storage.Key, len(ents))
		for i, e := range ents {
			keys[i] = e.kv.K
		}
		gotKey, err = ctx.GetBestKeyVersion(keys)
	} else {
		kvs := make([]*storage.KeyValue, len(ents))
		for i, e := range ents {
			kvs[i] = e.kv
		}
		var kv *storage.KeyValue
		kv, err = ctx.VersionedKeyValue(kvs)
		if kv != nil {
			gotKey, gotVal = kv.K, kv.V
		}
	}
	switch {
	case liveCount == 0:
		vh.Assert(gotKey == nil, "no live unsuperseded value: read finds nothing")
	case liveCount == 1:
		vh.Assert(err == nil && gotKey != nil, "read succeeds when exactly one unsuperseded live value exists")
		gv, verr := ctx.VersionFromKey(gotKey)
		vh.Assert(verr == nil && gv == d.vids[liveNode] && !gotKey.IsTombstone(), "read returns the single unsuperseded live value")
		gt, terr := storage.TKeyFromKey(gotKey)
		vh.Assert(terr == nil && bytes.Equal(gt, tk), "returned key is for the datum asked for")
		if mode == 1 {
			vh.Assert(len(gotVal) == 1 && gotVal[0] == vals[liveNode], "value returned is the one written at that version")
		}
	default:
		vh.Assert(!(err == nil && gotKey != nil), "two unsuperseded live values: the read does not succeed with either")
	}
	vh.Reach("end")
}
