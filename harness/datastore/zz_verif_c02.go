//go:build verif

package datastore

import (
	"bytes"
	"strings"

	"github.com/janelia-flyem/dvid/dvid"
	"github.com/janelia-flyem/dvid/storage"
	dvidbadger "github.com/janelia-flyem/dvid/storage/badger"
	"github.com/janelia-flyem/dvid/zzverif/vh"
)

// VerifC02_DefaultMutation: the default classification used by every other data type.
func VerifC02_DefaultMutation() {
	d := VerifNewData("x", 2, true)
	m, k := vh.Str("method", vh.Param(0)), vh.Str("keyword", vh.Param(1))
	for i := 0; i < len(m); i++ {
		vh.Assume(m[i] < 0x80)
	}
	l := strings.ToLower(m)
	vh.Assert(d.IsMutationRequest(m, k) == (l == "post" || l == "put" || l == "delete"), "POST/PUT/DELETE in any letter case are mutations")
	vh.Reach("end")
}

// VerifC02_ReadStability: what a committed version V reads is unaffected by anything written later at versions
// that are not V or its ancestors (children, siblings, merges, other data instances): after a prefix history, V's
// reads (point and range) are recorded; then one more write / delete / delete-range is issued at a version W that
// is not an ancestor-or-self of V, or at another data instance at any version; V's reads are unchanged.
// Params: DAG nodes, max parents, prefix writes.
func VerifC02_ReadStability() {
	n, maxPar, writes := vh.Param(0), vh.Param(1), vh.Param(2)
	vh.GoInline()
	d := vChooseDAG(n, maxPar)
	d.vInstall(nil)
	db, _ := dvidbadger.VerifNewModelDB()
	data := &vData{id: dvid.InstanceID(vh.U32("inst"))}
	other := &vData{id: dvid.InstanceID(vh.U32("otherInst"))}
	vh.Assume(data.id != other.id)
	tks := []storage.TKey{vUserTKey([]byte{1 + vh.U8("k1")%255}), vUserTKey([]byte{1 + vh.U8("k2")%255})}
	vh.Assume(!bytes.Equal(tks[0], tks[1]))
	at := func(dd *vData, node int) *VersionedCtx { return NewVersionedCtx(dd, d.vids[node]) }
	for w := 0; w < writes; w++ {
		node := 1 + vh.Choice("writeNode", n)
		k := vh.Choice("writeKey", 2)
		if vh.Choice("isDelete", 2) == 1 {
			db.Delete(at(data, node), tks[k])
		} else {
			db.Put(at(data, node), tks[k], []byte{vh.U8("value")})
		}
	}
	v := 1 + vh.Choice("committed", n)
	var before [2][]byte
	for k := 0; k < 2; k++ {
		before[k], _ = db.Get(at(data, v), tks[k])
	}
	keysBefore, _ := db.KeysInRange(at(data, v), storage.MinTKey(177), storage.MaxTKey(177))

	// a later operation somewhere else
	w := 1 + vh.Choice("laterNode", n)
	target := data
	if vh.Choice("otherInstance", 2) == 1 {
		target = other
	} else {
		vh.Assume(w != v && !d.anc(w, v)) // same instance: only at versions that are not V or an ancestor of V
	}
	k := vh.Choice("laterKey", 2)
	switch vh.Choice("laterOp", 3) {
	case 0:
		db.Put(at(target, w), tks[k], []byte{vh.U8("laterValue")})
	case 1:
		db.Delete(at(target, w), tks[k])
	default:
		db.DeleteRange(at(target, w), storage.MinTKey(177), storage.MaxTKey(177))
	}
	for k := 0; k < 2; k++ {
		after, err := db.Get(at(data, v), tks[k])
		vh.Assert(err == nil && bytes.Equal(after, before[k]) && (after == nil) == (before[k] == nil), "a committed version reads back identically after later writes elsewhere")
	}
	keysAfter, _ := db.KeysInRange(at(data, v), storage.MinTKey(177), storage.MaxTKey(177))
	vh.Assert(len(keysAfter) == len(keysBefore), "key listings at the committed version are unchanged")
	for i := range keysAfter {
		if i < len(keysBefore) {
			vh.Assert(bytes.Equal(keysAfter[i], keysBefore[i]), "key listings at the committed version are unchanged (same keys)")
		}
	}
	vDrain()
	vh.Reach("end")
}
