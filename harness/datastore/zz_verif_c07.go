//go:build verif

package datastore

import (
	"github.com/janelia-flyem/dvid/dvid"
	"github.com/janelia-flyem/dvid/zzverif/vh"
	"github.com/janelia-flyem/dvid/zzverif/vstore"
)

type vNodeCopy struct {
	uuid     dvid.UUID
	version  dvid.VersionID
	locked   bool
	branch   string
	note     string
	nlog     int
	parents  []dvid.VersionID
	children []dvid.VersionID
}

type vSnap struct {
	nodes    []vNodeCopy
	nRepos   int
	nV2U     int
	nU2V     int
	branches map[string]dvid.UUID
}

func vSnapshot(m *repoManager, r *repoT, order []dvid.UUID) vSnap {
	s := vSnap{nRepos: len(m.repos), nV2U: len(m.versionToUUID), nU2V: len(m.uuidToVersion), branches: map[string]dvid.UUID{}}
	for _, u := range order {
		v := m.uuidToVersion[u]
		n := r.dag.nodes[v]
		s.nodes = append(s.nodes, vNodeCopy{n.uuid, n.version, n.locked, n.branch, n.note, len(n.log),
			append([]dvid.VersionID{}, n.parents...), append([]dvid.VersionID{}, n.children...)})
	}
	for k, u := range m.branchToUUID {
		s.branches[k] = u
	}
	return s
}

func vSameIDs(a, b []dvid.VersionID) bool {
	if len(a) != len(b) {
		return false
	}
	for i := range a {
		if a[i] != b[i] {
			return false
		}
	}
	return true
}

// vUnchanged: the graph, branch heads and identifier maps are exactly as in the snapshot.
func vUnchanged(m *repoManager, r *repoT, order []dvid.UUID, s vSnap) bool {
	if len(m.repos) != s.nRepos || len(m.versionToUUID) != s.nV2U || len(m.uuidToVersion) != s.nU2V || len(r.dag.nodes) != len(s.nodes) {
		return false
	}
	if len(m.branchToUUID) != len(s.branches) {
		return false
	}
	for k, u := range s.branches {
		if m.branchToUUID[k] != u {
			return false
		}
	}
	for i, u := range order {
		v, ok := m.uuidToVersion[u]
		if !ok {
			return false
		}
		n, ok := r.dag.nodes[v]
		if !ok {
			return false
		}
		c := s.nodes[i]
		if n.uuid != c.uuid || n.version != c.version || n.locked != c.locked || n.branch != c.branch || n.note != c.note || len(n.log) != c.nlog ||
			!vSameIDs(n.parents, c.parents) || !vSameIDs(n.children, c.children) {
			return false
		}
	}
	return true
}

// vWellFormed: single root, mirrored links, bijective id maps, children only under committed parents,
// every node registered in the manager.
func vWellFormed(m *repoManager, r *repoT) bool {
	roots := 0
	for v, n := range r.dag.nodes {
		if n.version != v {
			return false
		}
		if len(n.parents) == 0 {
			roots++
			if v != r.dag.rootV || n.uuid != r.dag.root {
				return false
			}
		}
		if m.versionToUUID[v] != n.uuid || m.uuidToVersion[n.uuid] != v || m.repos[n.uuid] != r {
			return false
		}
		for _, p := range n.parents {
			pn, ok := r.dag.nodes[p]
			if !ok || !pn.locked {
				return false
			}
			cnt := 0
			for _, c := range pn.children {
				if c == v {
					cnt++
				}
			}
			if cnt == 0 {
				return false
			}
		}
		for _, c := range n.children {
			cn, ok := r.dag.nodes[c]
			if !ok {
				return false
			}
			cnt := 0
			for _, p := range cn.parents {
				if p == v {
					cnt++
				}
			}
			if cnt == 0 {
				return false
			}
		}
	}
	if roots != 1 || len(m.versionToUUID) != len(r.dag.nodes) || len(m.uuidToVersion) != len(r.dag.nodes) || len(m.repos) != len(r.dag.nodes) {
		return false
	}
	// each named branch is one chain with one head: no two single-parent children of one node share a branch
	// name, and a named branch never restarts elsewhere.
	for _, n := range r.dag.nodes {
		for i, c1 := range n.children {
			for j, c2 := range n.children {
				if i < j {
					a, b := r.dag.nodes[c1], r.dag.nodes[c2]
					if len(a.parents) == 1 && len(b.parents) == 1 && a.branch == b.branch {
						return false
					}
				}
			}
		}
	}
	for _, a := range r.dag.nodes {
		for _, b := range r.dag.nodes {
			if a != b && a.branch != "" && a.branch == b.branch && len(a.parents) == 1 && len(b.parents) == 1 {
				// both continue/start the same named branch: one must be the other's ancestor along the chain
				pa, pb := r.dag.nodes[a.parents[0]], r.dag.nodes[b.parents[0]]
				if pa.branch != a.branch && pb.branch != b.branch {
					return false // the name starts twice
				}
			}
		}
	}
	return true
}

// VerifC07_Ops: sequences of repo-level requests (commit, new version / branch, merge) with every kind of argument
// from a one-node repo; after each request the version graph is well formed, and a refused request changes nothing.
// Params: number of requests, max merge parents.
func VerifC07_Ops() {
	steps, maxPar := vh.Param(0), vh.Param(1)
	s := vstore.New()
	m := vBareManager(s)
	m.versionID = dvid.VersionID(vh.U32("versionCounter"))
	m.repoID = 1
	vh.Assume(m.versionID >= 1 && m.versionID < 0xFFFFFF00)
	r, err := m.newRepo("alias", "desc", nil, "")
	vh.Assert(err == nil && r != nil, "newRepo succeeds")
	order := []dvid.UUID{r.uuid}
	b1, b2 := vh.Str("branch1", 1), vh.Str("branch2", 1)
	vh.Assert(vWellFormed(m, r), "new repo is well formed")

	pick := func(name string) dvid.UUID {
		k := vh.Choice(name, len(order)+1)
		if k == len(order) {
			return dvid.UUID("0000unknown")
		}
		return order[k]
	}
	for st := 0; st < steps; st++ {
		snap := vSnapshot(m, r, order)
		var opErr error
		var created dvid.UUID
		switch vh.Choice("op", 4) {
		case 3:
			// a new repo whose caller-assigned root UUID already names a version (root or not) must be refused
			u := order[vh.Choice("repoAssign", len(order))]
			_, opErr = m.newRepo("other", "desc", &u, "")
			vh.Assert(opErr != nil, "a new repo cannot take the UUID of an existing version")
		case 0:
			opErr = m.commit(pick("commitNode"), "note", nil)
		case 1:
			parent := pick("parent")
			branch := []string{"", b1, b2}[vh.Choice("branch", 3)]
			var assign *dvid.UUID
			switch vh.Choice("assign", 3) {
			case 1:
				u := dvid.UUID(vh.Fresh("assigned"))
				assign = &u
			case 2:
				u := order[vh.Choice("assignExisting", len(order))]
				assign = &u
			}
			created, opErr = m.newVersion(parent, "note", branch, assign)
		default:
			np := 2
			if maxPar > 2 {
				np = 2 + vh.Choice("nparents", maxPar-1)
			}
			var parents []dvid.UUID
			for i := 0; i < np; i++ {
				parents = append(parents, pick("mergeParent"))
			}
			mt := []MergeType{MergeConflictFree, MergeTypeSpecificAuto, MergeType(77)}[vh.Choice("mergeType", 3)]
			created, opErr = m.merge(parents, "note", mt)
		}
		if opErr != nil {
			vh.Assert(vUnchanged(m, r, order, snap), "a request answered with an error leaves graph, branch heads and id maps exactly as they were")
		} else {
			if created != dvid.NilUUID {
				for _, u := range order {
					vh.Assert(u != created, "a created version gets a UUID no existing node has")
				}
				order = append(order, created)
			}
			vh.Assert(len(r.dag.nodes) == len(order), "every UUID names exactly one node")
			vh.Assert(vWellFormed(m, r), "after a successful request the version graph is well formed")
		}
	}
	vh.Reach("end")
}

// VerifC07_Step: one request from an ARBITRARY well-formed repo state (inductive step): every DAG shape on n nodes,
// every commit-flag and branch-name labelling that satisfies the well-formedness invariant, symbolic version ids.
// Params: nodes, max parents per node.
func VerifC07_Step() {
	n, maxPar := vh.Param(0), vh.Param(1)
	d := vChooseDAG(n, maxPar)
	locked := make([]bool, n+1)
	for i := 1; i <= n; i++ {
		locked[i] = vh.Choice("locked", 2) == 1
	}
	m, r := d.vInstall(locked)
	m.store = vstore.New()
	m.instanceIDGen = "sequential"
	m.versionID = dvid.VersionID(vh.U32("versionCounter"))
	for i := 1; i <= n; i++ {
		vh.Assume(m.versionID > d.vids[i]) // the counter is above every issued id (C12's invariant)
	}
	vh.Assume(m.versionID < 0xFFFFFF00)
	b1, b2 := vh.Str("branch1", 1), vh.Str("branch2", 1)
	vh.Assume(b1 != b2)
	names := []string{"", b1, b2}
	for i := 2; i <= n; i++ {
		r.dag.nodes[d.vids[i]].branch = names[vh.Choice("nodeBranch", 3)]
	}
	vh.Assume(vWellFormed(m, r))
	for k, u := range r.branchHeads() {
		if k == "" {
			k = "master"
		}
		m.branchToUUID[string(r.uuid)+k] = u
	}
	order := append([]dvid.UUID{}, d.uuids[1:]...)

	pick := func(name string) dvid.UUID {
		k := vh.Choice(name, len(order)+1)
		if k == len(order) {
			return dvid.UUID("0000unknown")
		}
		return order[k]
	}
	snap := vSnapshot(m, r, order)
	var opErr error
	var created dvid.UUID
	switch vh.Choice("op", 4) {
	case 3:
		u := order[vh.Choice("repoAssign", len(order))]
		_, opErr = m.newRepo("other", "desc", &u, "")
		vh.Assert(opErr != nil, "a new repo cannot take the UUID of an existing version")
	case 0:
		opErr = m.commit(pick("commitNode"), "note", nil)
	case 1:
		parent := pick("parent")
		branch := names[vh.Choice("branch", 3)]
		var assign *dvid.UUID
		switch vh.Choice("assign", 3) {
		case 1:
			u := dvid.UUID(vh.Fresh("assigned"))
			assign = &u
		case 2:
			u := order[vh.Choice("assignExisting", len(order))]
			assign = &u
		}
		created, opErr = m.newVersion(parent, "note", branch, assign)
	default:
		parents := []dvid.UUID{pick("mergeParent"), pick("mergeParent")}
		mt := []MergeType{MergeConflictFree, MergeType(77)}[vh.Choice("mergeType", 2)]
		created, opErr = m.merge(parents, "note", mt)
	}
	if opErr != nil {
		vh.Assert(vUnchanged(m, r, order, snap), "a request answered with an error leaves graph, branch heads and id maps exactly as they were")
	} else {
		if created != dvid.NilUUID {
			for _, u := range order {
				vh.Assert(u != created, "a created version gets a UUID no existing node has")
			}
			order = append(order, created)
		}
		vh.Assert(len(r.dag.nodes) == len(order), "every UUID names exactly one node")
		vh.Assert(vWellFormed(m, r), "after a successful request the version graph is well formed")
	}
	vh.Reach("end")
}
