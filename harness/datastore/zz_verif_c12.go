//go:build verif

package datastore

import (
	"github.com/janelia-flyem/dvid/dvid"
	"github.com/janelia-flyem/dvid/zzverif/vh"
	"github.com/janelia-flyem/dvid/zzverif/vstore"
)

func vBareManager(s *vstore.Store) *repoManager {
	m := &repoManager{
		repos:         make(map[dvid.UUID]*repoT),
		repoToUUID:    make(map[dvid.RepoID]dvid.UUID),
		versionToUUID: make(map[dvid.VersionID]dvid.UUID),
		uuidToVersion: make(map[dvid.UUID]dvid.VersionID),
		branchToUUID:  make(map[string]dvid.UUID),
		iids:          make(map[dvid.InstanceID]DataService),
		dataByUUID:    make(map[dvid.UUID]DataService),
		instanceIDGen: "sequential",
		store:         s,
	}
	manager = m
	return m
}

// VerifC12_MutationID: mutation ids strictly increase and are never reissued after a crash at any store write.
// Param 0: number of allocations before the crash/restart (1..3).
func VerifC12_MutationID() {
	k := vh.Param(0)
	s := vstore.New()
	vBareManager(s)
	r := &repoT{id: dvid.RepoID(vh.U32("repoid")), uuid: "r"}
	// state as left by initMutationID at some earlier start: persisted bound == mutSavedID > mutCurID
	start := vh.U64("start")
	vh.Assume(start < 1<<62)
	vh.Assert(r.initMutationID(s, start, false) == nil, "initMutationID succeeds")
	// arbitrary progress since then (within the persisted stride)
	adv := vh.U64("advance")
	vh.Assume(adv < StrideMutationID)
	r.mutCurID += adv
	s.Writes = 0
	s.CrashAt = vh.CrashAfter("crash", k)
	var last, prev uint64
	for i := 0; i < k; i++ {
		id := r.newMutationID()
		if i > 0 {
			vh.Assert(id > prev, "mutation ids strictly increase in issue order")
		}
		vh.Assert(id >= start, "mutation ids respect the configured start")
		prev = id
		// the id was handed out only if the process was still alive when the call returned
		if s.CrashAt < 0 || s.Writes <= s.CrashAt {
			last = id
		}
	}
	// crash + restart: a fresh repoT reads the persisted bound
	s2 := s.Clone()
	r2 := &repoT{id: r.id, uuid: "r"}
	vh.Assert(r2.initMutationID(s2, start, false) == nil, "initMutationID after restart succeeds")
	vh.Assert(last == 0 || r2.mutCurID > last, "after a crash/restart the next mutation id is above every id handed out before")
	next := r2.newMutationID()
	vh.Assert(last == 0 || next > last, "an id issued after restart was never issued before")
	vh.Reach("end")
}

// VerifC12_LocalIDs: instance / repo / version ids are never reissued, also after a crash at any write and reload.
// Param 0: which allocator (0 instance, 1 repo, 2 version without save, 3 version with save, 4 newUUID).
func VerifC12_LocalIDs() {
	which := vh.Param(0)
	s := vstore.New()
	m := vBareManager(s)
	m.repoID, m.versionID, m.instanceID = dvid.RepoID(vh.U32("repoID")), dvid.VersionID(vh.U32("versionID")), dvid.InstanceID(vh.U32("instanceID"))
	vh.Assume(m.repoID >= 1 && m.versionID >= 1 && m.instanceID >= 1)
	vh.Assume(m.repoID < 0xFFFFFFF0 && m.versionID < 0xFFFFFFF0 && m.instanceID < 0xFFFFFFF0)
	vh.Assert(m.putNewIDs() == nil, "counters persist")
	pre := [3]uint32{uint32(m.repoID), uint32(m.versionID), uint32(m.instanceID)}
	s.Writes = 0
	s.CrashAt = vh.CrashAfter("crash", 4)
	var ids [2]uint32
	acked := 0
	sel := map[int]int{0: 2, 1: 0, 2: 1, 3: 1, 4: 1}[which]
	for i := 0; i < 2; i++ {
		switch which {
		case 0:
			id, err := m.newInstanceID()
			vh.Assert(err == nil, "newInstanceID succeeds")
			ids[i] = uint32(id)
		case 1:
			id, err := m.newRepoID()
			vh.Assert(err == nil, "newRepoID succeeds")
			ids[i] = uint32(id)
		case 2:
			id, err := m.newVersionID(dvid.UUID(vh.Fresh("u")), false)
			vh.Assert(err == nil, "newVersionID succeeds")
			ids[i] = uint32(id)
		case 3:
			id, err := m.newVersionID(dvid.UUID(vh.Fresh("u")), true)
			vh.Assert(err == nil, "newVersionID(save) succeeds")
			ids[i] = uint32(id)
		default:
			_, id, err := m.newUUID(nil)
			vh.Assert(err == nil, "newUUID succeeds")
			ids[i] = uint32(id)
		}
		if s.CrashAt < 0 || s.Writes <= s.CrashAt {
			acked = i + 1
		}
		vh.Assert(ids[i] >= pre[sel], "issued id is not below the counter")
	}
	vh.Assert(ids[0] != ids[1] && ids[1] > ids[0], "ids are distinct and increase")
	// the first allocation was acknowledged only if its persistence write took effect (crash >= 1), etc.
	m2 := vBareManager(s.Clone())
	vh.Assert(m2.loadNewIDs() == nil, "counters reload")
	cur := [3]uint32{uint32(m2.repoID), uint32(m2.versionID), uint32(m2.instanceID)}[sel]
	if acked >= 1 {
		vh.Assert(cur > ids[0], "reloaded counter is above an id whose allocation was acknowledged before the crash")
	}
	if acked >= 2 {
		vh.Assert(cur > ids[1], "reloaded counter is above every acknowledged id")
	}
	vh.Assert(cur >= pre[sel], "counters never move backwards")
	vh.Reach("end")
}
