//go:build verif

package datastore

import (
	"bytes"

	"github.com/janelia-flyem/dvid/dvid"
	"github.com/janelia-flyem/dvid/storage"
	dvidbadger "github.com/janelia-flyem/dvid/storage/badger"
	"github.com/janelia-flyem/dvid/zzverif/vh"
)

func vDrain() {
	// the engine's channel model queues metric sends; natively drain so the buffered channels never fill
	for _, ch := range []chan int{storage.StoreKeyBytesRead, storage.StoreValueBytesRead, storage.StoreKeyBytesWritten, storage.StoreValueBytesWritten} {
		for len(ch) > 0 {
			<-ch
		}
	}
}

// vUserTKey mirrors keyvalue.NewTKey: class byte, standard byte, the user's key bytes, a 0x00 terminator.
func vUserTKey(user []byte) storage.TKey {
	return storage.NewTKey(storage.TKeyClass(177), append(append([]byte{}, user...), 0))
}

// VerifC05_Range: after a short history of puts and deletes of a few datum keys over a branched DAG, range and
// listing queries at a version return exactly the keys in the interval whose point read finds a value, each once,
// ascending, with the value the point read returns; and DeleteRange makes exactly those keys absent at that version
// and leaves the other versions' reads untouched.
// Params: DAG nodes, max parents, number of writes, user-key lengths code (0: 1,1  1: 1,2  2: 2,2).
func VerifC05_Range() {
	n, maxPar, writes, lens := vh.Param(0), vh.Param(1), vh.Param(2), vh.Param(3)
	vh.GoInline()
	d := vChooseDAG(n, maxPar)
	d.vInstall(nil)
	db, _ := dvidbadger.VerifNewModelDB()
	data := &vData{id: dvid.InstanceID(vh.U32("inst"))}
	l1, l2 := 1, 1
	if lens >= 1 {
		l2 = 2
	}
	if lens == 2 {
		l1 = 2
	}
	users := [][]byte{vh.Bytes("userkey", l1), vh.Bytes("userkey", l2)}
	vh.Assume(!bytes.Equal(users[0], users[1]))
	// user keys are C strings as far as the HTTP layer is concerned: no embedded NUL (see the D2 note in DESIGN.md)
	for _, u := range users {
		for _, b := range u {
			vh.Assume(b != 0)
		}
	}
	tks := []storage.TKey{vUserTKey(users[0]), vUserTKey(users[1])}
	ctxAt := func(node int) *VersionedCtx { return NewVersionedCtx(data, d.vids[node]) }

	for w := 0; w < writes; w++ {
		node := 1 + vh.Choice("writeNode", n)
		k := vh.Choice("writeKey", 2)
		if vh.Choice("isDelete", 2) == 1 {
			vh.Assert(db.Delete(ctxAt(node), tks[k]) == nil, "Delete succeeds")
		} else {
			vh.Assert(db.Put(ctxAt(node), tks[k], []byte{vh.U8("value")}) == nil, "Put succeeds")
		}
	}
	q := 1 + vh.Choice("queryNode", n)
	ctx := ctxAt(q)

	// point reads at every node (to check DeleteRange's frame afterwards)
	point := func(node, k int) []byte {
		v, err := db.Get(ctxAt(node), tks[k])
		vh.Assert(err == nil, "point read succeeds")
		return v
	}
	var before [4][2][]byte
	for node := 1; node <= n; node++ {
		for k := 0; k < 2; k++ {
			before[node][k] = point(node, k)
		}
	}

	// interval: whole class, or bounded by the datum keys themselves (single-key and empty intervals included)
	lo, hi := storage.MinTKey(177), storage.MaxTKey(177)
	switch vh.Choice("interval", 4) {
	case 1:
		lo, hi = tks[0], tks[1]
	case 2:
		lo, hi = tks[1], tks[0]
	case 3:
		lo, hi = tks[0], tks[0]
	}
	inRange := func(k int) bool { return bytes.Compare(lo, tks[k]) <= 0 && bytes.Compare(tks[k], hi) <= 0 }

	keys, err := db.KeysInRange(ctx, lo, hi)
	vh.Assert(err == nil, "KeysInRange succeeds")
	kvs, err := db.GetRange(ctx, lo, hi)
	vh.Assert(err == nil, "GetRange succeeds")
	vh.Assert(len(kvs) == len(keys), "keys-only and key-value variants list the same number of keys")
	for k := 0; k < 2; k++ {
		want := inRange(k) && before[q][k] != nil
		cnt := 0
		for i, got := range keys {
			if bytes.Equal(got, tks[k]) {
				cnt++
				vh.Assert(bytes.Equal(kvs[i].K, tks[k]) && bytes.Equal(kvs[i].V, before[q][k]), "a listed key carries the value its point read returns")
			}
		}
		vh.Assert(cnt == vB2I(want), "a key is listed exactly once iff it lies in the interval and its point read finds a value")
	}
	for i := 0; i+1 < len(keys); i++ {
		vh.Assert(bytes.Compare(keys[i], keys[i+1]) < 0, "keys are listed in ascending order")
	}
	for _, got := range keys {
		vh.Assert(bytes.Equal(got, tks[0]) || bytes.Equal(got, tks[1]), "nothing that was never written is listed")
	}

	// the streaming and the callback variants list the same keys in the same order; Exists agrees with the point read
	kch := make(storage.KeyChan, 16)
	vh.Assert(db.SendKeysInRange(ctx, lo, hi, kch) == nil, "SendKeysInRange succeeds")
	si := 0
	for {
		fk := <-kch
		if fk == nil {
			break
		}
		tk, err := storage.TKeyFromKey(fk)
		vh.Assert(err == nil && si < len(keys) && bytes.Equal(tk, keys[si]), "the streamed keys are the listed keys, in the same order")
		si++
	}
	vh.Assert(si == len(keys), "the stream carries every listed key")
	pi := 0
	perr := db.ProcessRange(ctx, lo, hi, &storage.ChunkOp{}, func(c *storage.Chunk) error {
		vh.Assert(c != nil && c.TKeyValue != nil && pi < len(kvs) && bytes.Equal(c.K, kvs[pi].K) && bytes.Equal(c.V, kvs[pi].V), "the callback variant is handed the listed key-value pairs, in order")
		pi++
		return nil
	})
	vh.Assert(perr == nil && pi == len(kvs), "the callback variant visits every listed pair")
	for k := 0; k < 2; k++ {
		ex, err := db.Exists(ctx, tks[k])
		vh.Assert(err == nil && ex == (before[q][k] != nil), "Exists agrees with the point read")
	}

	// delete the interval at q
	vh.Assert(db.DeleteRange(ctx, lo, hi) == nil, "DeleteRange succeeds")
	for node := 1; node <= n; node++ {
		for k := 0; k < 2; k++ {
			after := point(node, k)
			affected := inRange(k) && before[q][k] != nil && (node == q || d.anc(q, node))
			if node == q && inRange(k) {
				vh.Assert(after == nil, "keys of the interval are absent at the version after DeleteRange")
			}
			if !affected {
				vh.Assert(bytes.Equal(after, before[node][k]) && (after == nil) == (before[node][k] == nil), "ancestors, siblings and keys outside the interval are untouched by DeleteRange")
			}
		}
	}
	vDrain()
	vh.Reach("end")
}
