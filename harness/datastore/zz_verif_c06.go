//go:build verif

package datastore

import (
	"bytes"

	"github.com/janelia-flyem/dvid/dvid"
	"github.com/janelia-flyem/dvid/storage"
	dvidbadger "github.com/janelia-flyem/dvid/storage/badger"
	"github.com/janelia-flyem/dvid/zzverif/vh"
)

// VerifC06_DeleteInstance: deleting a data instance's entries (the real BadgerDB.DeleteAll over the model of the Badger
// library, whose iterator and write batch follow the library's documented slice-validity rules) removes every entry
// of that instance at every version and leaves every entry of the other instances - below and above it in key order -
// exactly as it was.  Instance ids, version ids, datum keys and values symbolic.
// Params: entries in the deleted instance (1..3).
func VerifC06_DeleteInstance() {
	n := vh.Param(0)
	d := vChooseDAG(2, 1)
	d.vInstall(nil)
	db, model := dvidbadger.VerifNewModelDB()
	victim := &vData{id: dvid.InstanceID(vh.U32("victim"))}
	below := &vData{id: dvid.InstanceID(vh.U32("below"))}
	above := &vData{id: dvid.InstanceID(vh.U32("above"))}
	vh.Assume(below.id < victim.id && victim.id < above.id && above.id != dvid.MaxInstanceID)
	tks := []storage.TKey{vUserTKey([]byte{vh.U8("k1")}), vUserTKey([]byte{vh.U8("k2")})}
	vh.Assume(!bytes.Equal(tks[0], tks[1]))
	at := func(data *vData, node int) *VersionedCtx { return NewVersionedCtx(data, d.vids[node]) }

	vh.Assert(db.Put(at(below, 1), tks[0], []byte{vh.U8("belowValue")}) == nil, "neighbour write")
	vh.Assert(db.Put(at(above, 2), tks[1], []byte{vh.U8("aboveValue")}) == nil, "neighbour write")
	for i := 0; i < n; i++ {
		node := 1 + vh.Choice("node", 2)
		k := vh.Choice("key", 2)
		if vh.Choice("tombstone", 2) == 1 {
			vh.Assert(db.Delete(at(victim, node), tks[k]) == nil, "victim delete")
		} else {
			vh.Assert(db.Put(at(victim, node), tks[k], []byte{vh.U8("victimValue")}) == nil, "victim write")
		}
	}
	keysBefore, valsBefore := model.Pairs()
	minKey, maxKey := storage.NewDataContext(victim, 0).KeyRange()
	inVictim := func(k []byte) bool { return bytes.Compare(k, minKey) >= 0 && bytes.Compare(k, maxKey) <= 0 }

	vh.Assert(db.DeleteAll(at(victim, 1)) == nil, "DeleteAll succeeds")

	keysAfter, valsAfter := model.Pairs()
	j := 0
	for i := range keysBefore {
		if inVictim(keysBefore[i]) {
			continue
		}
		vh.Assert(j < len(keysAfter) && bytes.Equal(keysAfter[j], keysBefore[i]) && bytes.Equal(valsAfter[j], valsBefore[i]),
			"every entry of every other instance is exactly as it was")
		j++
	}
	vh.Assert(j == len(keysAfter), "every entry of the deleted instance is gone (and nothing else appeared)")
	vDrain()
	vh.Reach("end")
}
