//go:build verif

package datastore

import (
	"bytes"

	"github.com/janelia-flyem/dvid/dvid"
	"github.com/janelia-flyem/dvid/storage"
	dvidbadger "github.com/janelia-flyem/dvid/storage/badger"
	"github.com/janelia-flyem/dvid/zzverif/vh"
)

func (d *vData) DataName() dvid.InstanceName { return "vdata" }

// VerifC19_Copy: copying a data instance (the real copyData over the real Badger engine code and the store model):
// after a short write/delete history over a branched DAG in the source, a full copy reads identically to the source
// at every version, a flattened copy made at version V reads like the source as seen from V, other instances in the
// target store are untouched and the source store is unchanged.
// Params: DAG nodes, max parents, writes, flatten (0/1), same store (1) or another store (0), structured (0/1).
// structured = 1: version ids 1..n in creation order, fixed instance ids and datum keys, write w goes to node w+1 —
// only the DAG shape, the kind of each write and the values stay open, which lets the history grow to one write per node.
func VerifC19_Copy() {
	n, maxPar, writes, flatten, same := vh.Param(0), vh.Param(1), vh.Param(2), vh.Param(3) == 1, vh.Param(4) == 1
	structured := vh.Param(5) == 1
	vConcreteVids = structured
	d := vChooseDAG(n, maxPar)
	d.vInstall(nil)
	src, srcModel := dvidbadger.VerifNewModelDB()
	dst, dstModel := src, srcModel
	if !same {
		dst, dstModel = dvidbadger.VerifNewModelDB()
	}
	var d1, d2, d3 *vData
	if structured {
		d1, d2, d3 = &vData{id: 5}, &vData{id: 7}, &vData{id: 6}
	} else {
		d1 = &vData{id: dvid.InstanceID(vh.U32("srcInst"))}
		d2 = &vData{id: dvid.InstanceID(vh.U32("dstInst"))}
		d3 = &vData{id: dvid.InstanceID(vh.U32("otherInst"))}
	}
	vh.Assume(d1.id != d2.id && d3.id != d1.id && d3.id != d2.id)
	// instance-wide key ranges are complete only below the maximum id (see C06 and DESIGN.md: boundary note)
	vh.Assume(d1.id != dvid.MaxInstanceID && d2.id != dvid.MaxInstanceID)
	tks := []storage.TKey{vUserTKey([]byte{vh.U8("k1")}), vUserTKey([]byte{vh.U8("k2")})}
	if structured {
		tks = []storage.TKey{vUserTKey([]byte{'a'}), vUserTKey([]byte{'b'})}
	}
	vh.Assume(!bytes.Equal(tks[0], tks[1]))
	at := func(data *vData, node int) *VersionedCtx { return NewVersionedCtx(data, d.vids[node]) }

	// a bystander instance in the target store
	vh.Assert(dst.Put(at(d3, 1), tks[0], []byte{vh.U8("otherValue")}) == nil, "bystander write")
	for w := 0; w < writes; w++ {
		node := 1 + w%n
		if !structured {
			node = 1 + vh.Choice("writeNode", n)
		}
		k := vh.Choice("writeKey", 2)
		if vh.Choice("isDelete", 2) == 1 {
			vh.Assert(src.Delete(at(d1, node), tks[k]) == nil, "Delete succeeds")
		} else {
			val := []byte{vh.U8("value")}
			if vh.Choice("emptyValue", 2) == 1 {
				val = []byte{} // key-only records (ROI spans, empty payloads)
			}
			vh.Assert(src.Put(at(d1, node), tks[k], val) == nil, "Put succeeds")
		}
	}
	srcKeysBefore, srcValsBefore := srcModel.Pairs()
	bystander, _ := dst.Get(at(d3, 1), tks[0])

	v := 1 + vh.Choice("copyAt", n)
	vh.Assert(copyData(src, dst, d1, d2, d.uuids[v], nil, flatten) == nil, "copy succeeds")
	vh.Quiesce()

	for node := 1; node <= n; node++ {
		if flatten && node != v {
			continue
		}
		for k := 0; k < 2; k++ {
			a, err1 := src.Get(at(d1, node), tks[k])
			b, err2 := dst.Get(at(d2, node), tks[k])
			vh.Assert(err1 == nil && err2 == nil, "reads succeed")
			vh.Assert(bytes.Equal(a, b), "the copy reads exactly what the source reads at that version")
			ka, _ := src.KeysInRange(at(d1, node), tks[k], tks[k])
			kb, _ := dst.KeysInRange(at(d2, node), tks[k], tks[k])
			vh.Assert(len(ka) == len(kb), "a key is present in the copy iff it is present in the source")
		}
	}
	// frame: the bystander instance and the source are untouched
	by2, _ := dst.Get(at(d3, 1), tks[0])
	vh.Assert(bytes.Equal(by2, bystander), "other instances in the target store are unaffected")
	if !same {
		ks, vs := srcModel.Pairs()
		vh.Assert(len(ks) == len(srcKeysBefore), "the source store holds the same number of entries")
		for i := range ks {
			if i < len(srcKeysBefore) {
				vh.Assert(bytes.Equal(ks[i], srcKeysBefore[i]) && bytes.Equal(vs[i], srcValsBefore[i]), "the source store is unchanged by the copy")
			}
		}
	}
	_ = dstModel
	vDrain()
	vh.Reach("end")
}
