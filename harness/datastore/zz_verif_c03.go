//go:build verif

package datastore

import (
	"github.com/janelia-flyem/dvid/dvid"
	"github.com/janelia-flyem/dvid/zzverif/vh"
	"github.com/janelia-flyem/dvid/zzverif/vstore"
)

// VerifC03_Restart: after every short sequence of acknowledged repo-level requests, a restart on the same store
// (the real loadMetadata / loadVersion0 / branch-head rebuild / id correction, with every iteration order of the
// maps they range over) yields the same repos, version DAG, commit flags, notes, branch heads and id counters.
// Params: number of requests before the restart, max merge parents.
func VerifC03_Restart() {
	steps := vh.Param(0)
	s := vstore.New()
	m := vBareManager(s)
	m.versionID = dvid.VersionID(vh.U32("versionCounter"))
	m.repoID, m.instanceID = 1, 1
	m.mutationIDStart = InitialMutationID
	vh.Assume(m.versionID >= 1 && m.versionID < 0xFFFFFF00)
	r, err := m.newRepo("alias", "desc", nil, "")
	vh.Assert(err == nil && r != nil, "newRepo succeeds")
	order := []dvid.UUID{r.uuid}
	b1 := vh.Str("branch1", 1)
	pick := func(name string) dvid.UUID { return order[vh.Choice(name, len(order))] }
	for st := 0; st < steps; st++ {
		var created dvid.UUID
		var opErr error
		switch vh.Choice("op", 3) {
		case 0:
			opErr = m.commit(pick("commitNode"), "note", nil)
		case 1:
			branch := []string{"", b1}[vh.Choice("branch", 2)]
			created, opErr = m.newVersion(pick("parent"), "note", branch, nil)
		default:
			created, opErr = m.merge([]dvid.UUID{pick("mergeParent"), pick("mergeParent")}, "note", MergeConflictFree)
		}
		if opErr == nil && created != dvid.NilUUID {
			order = append(order, created)
		}
	}

	// restart: a fresh manager loads everything from the store
	m2 := vBareManager(s.Clone())
	m2.mutationIDStart = InitialMutationID
	vh.MapOrderAll()
	lerr := m2.loadMetadata()
	vh.MapOrderDefault()
	vh.Assert(lerr == nil, "the next start succeeds")
	vh.Assert(len(m2.repos) == len(m.repos) && len(m2.versionToUUID) == len(m.versionToUUID) && len(m2.uuidToVersion) == len(m.uuidToVersion), "the same set of versions exists after restart")
	r2, found := m2.repos[r.uuid]
	vh.Assert(found && r2.uuid == r.uuid && r2.id == r.id && r2.alias == r.alias && r2.description == r.description, "the repo is back with its identity and settings")
	for _, u := range order {
		v1, ok1 := m.uuidToVersion[u]
		v2, ok2 := m2.uuidToVersion[u]
		vh.Assert(ok1 && ok2 && v1 == v2, "every UUID maps to the same version id")
		n1, n2 := r.dag.nodes[v1], r2.dag.nodes[v2]
		vh.Assert(n2 != nil && n1.uuid == n2.uuid && n1.locked == n2.locked && n1.branch == n2.branch && n1.note == n2.note &&
			vSameIDs(n1.parents, n2.parents) && vSameIDs(n1.children, n2.children), "every node has the same commit flag, branch, note, parents and children")
	}
	// branch heads as the API resolves them ("uuid:branch")
	vh.Assert(len(m2.branchToUUID) == len(m.branchToUUID), "the same branches have heads")
	for k, u := range m.branchToUUID {
		vh.Assert(m2.branchToUUID[k] == u, "every branch resolves to the same head after restart")
	}
	vh.Assert(m2.versionID == m.versionID && m2.repoID == m.repoID && m2.instanceID == m.instanceID, "id counters are restored exactly")
	vh.Assert(r2.mutCurID >= r.mutCurID, "the mutation id may jump forward but never goes back")
	vh.Reach("end")
}
