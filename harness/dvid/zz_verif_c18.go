//go:build verif

package dvid

import (
	"bytes"

	"github.com/janelia-flyem/dvid/zzverif/vh"
)

func vCmpI32(a, b int32) int {
	if a < b {
		return -1
	}
	if a > b {
		return 1
	}
	return 0
}

func vSignInt(x int) int {
	if x < 0 {
		return -1
	}
	if x > 0 {
		return 1
	}
	return 0
}

// VerifC18_PointCodec: block-coordinate keys decode to the coordinate they were made from and sort in (z,y,x)
// order for all signed int32 coordinates (all pairs).
func VerifC18_PointCodec() {
	p := Point3d{vh.I32("x1"), vh.I32("y1"), vh.I32("z1")}
	q := Point3d{vh.I32("x2"), vh.I32("y2"), vh.I32("z2")}
	bp, bq := p.ToZYXBytes(), q.ToZYXBytes()
	vh.Assert(len(bp) == 12, "key is 12 bytes")
	var back Point3d
	vh.Assert(back.FromZYXBytes(bp) == nil && back == p, "FromZYXBytes(ToZYXBytes(p)) == p")
	want := vCmpI32(p[2], q[2])
	if want == 0 {
		want = vCmpI32(p[1], q[1])
	}
	if want == 0 {
		want = vCmpI32(p[0], q[0])
	}
	vh.Assert(vSignInt(bytes.Compare(bp, bq)) == want, "byte order of keys = (z,y,x) numeric order")
	// IndexZYX / IZYXString views of the same encoding
	idx := IndexZYX{p[0], p[1], p[2]}
	vh.Assert(bytes.Equal(idx.Bytes(), bp), "IndexZYX.Bytes = ToZYXBytes")
	var idx2 IndexZYX
	vh.Assert(idx2.IndexFromBytes(bp) == nil && idx2 == idx, "IndexFromBytes round trip")
	s := idx.ToIZYXString()
	x, y, z, err := s.Unpack()
	vh.Assert(err == nil && x == p[0] && y == p[1] && z == p[2], "IZYXString.Unpack round trip")
	zz, err := s.Z()
	vh.Assert(err == nil && zz == p[2], "IZYXString.Z")
	cp, err := s.ToChunkPoint3d()
	vh.Assert(err == nil && cp == ChunkPoint3d(idx), "IZYXString.ToChunkPoint3d")
	vh.Assert(ChunkPoint3d(idx).ToIZYXString() == s, "ChunkPoint3d.ToIZYXString agrees")
	idxq := IndexZYX{q[0], q[1], q[2]}
	s2 := idxq.ToIZYXString()
	vh.Assert((s < s2) == (want < 0), "IZYXString string order = (z,y,x) order")
	// little-endian binary form
	mb, err := idx.MarshalBinary()
	vh.Assert(err == nil && len(mb) == 12, "MarshalBinary 12 bytes")
	var idx3 IndexZYX
	vh.Assert(idx3.UnmarshalBinary(mb) == nil && idx3 == idx, "IndexZYX Marshal/UnmarshalBinary round trip")
	vh.Reach("end")
}

// VerifC18_Chunk: block coordinate and in-block offset of a voxel (floor semantics for negative coordinates).
// Param 0: block size.
func VerifC18_Chunk() {
	sz := int32(vh.Param(0))
	size := Point3d{sz, sz, sz}
	p := Point3d{vh.I32("x"), vh.I32("y"), vh.I32("z")}
	const lim = 1 << 24
	vh.Assume(p[0] > -lim && p[0] < lim && p[1] > -lim && p[1] < lim && p[2] > -lim && p[2] < lim)
	c := p.Chunk(size).(ChunkPoint3d)
	o := p.PointInChunk(size).(Point3d)
	for d := 0; d < 3; d++ {
		vh.Assert(o[d] >= 0 && o[d] < sz, "in-block offset within [0,size)")
		vh.Assert(c[d]*sz+o[d] == p[d], "block*size + offset == coordinate")
	}
	// string form used for block maps
	s := p.ToBlockIZYXString(size)
	x, y, z, err := s.Unpack()
	vh.Assert(err == nil && x == c[0] && y == c[1] && z == c[2], "ToBlockIZYXString names the containing block")
	// block min / max voxel
	idx := IndexZYX(c)
	mn := idx.MinPoint(size).(Point3d)
	mx := idx.MaxPoint(size).(Point3d)
	for d := 0; d < 3; d++ {
		vh.Assert(mn[d] <= p[d] && p[d] <= mx[d] && mx[d]-mn[d] == sz-1, "voxel lies within its block's min/max points")
	}
	vh.Reach("end")
}

func vRuns(n int) RLEs {
	const lim = 1 << 20
	rles := make(RLEs, n)
	for i := 0; i < n; i++ {
		x, y, z, l := vh.I32("rx"), vh.I32("ry"), vh.I32("rz"), vh.I32("rl")
		vh.Assume(x > -lim && x < lim && y > -lim && y < lim && z > -lim && z < lim && l >= 1 && l < lim)
		rles[i] = RLE{Point3d{x, y, z}, l}
	}
	// non-overlapping
	for i := 0; i < n; i++ {
		for j := i + 1; j < n; j++ {
			vh.Assume(!rles[i].Intersects(rles[j]))
		}
	}
	return rles
}

func vIn(rles RLEs, x, y, z int32) bool {
	hit := false
	for _, r := range rles {
		h := r.start[1] == y && r.start[2] == z && x >= r.start[0] && x < r.start[0]+r.length
		hit = hit || h
	}
	return hit
}

func vCount(rles RLEs, x, y, z int32) int {
	n := 0
	for _, r := range rles {
		if r.start[1] == y && r.start[2] == z && x >= r.start[0] && x < r.start[0]+r.length {
			n++
		}
	}
	return n
}

func vVoxel() (x, y, z int32) {
	return vh.I32("vx"), vh.I32("vy"), vh.I32("vz")
}

// VerifC18_RLEBasics: Within / Intersects / Excise / Less on single runs.
func VerifC18_RLEBasics() {
	rs := vRunsAny(2)
	a, b := rs[0], rs[1]
	x, y, z := vVoxel()
	inA := a.start[1] == y && a.start[2] == z && x >= a.start[0] && x < a.start[0]+a.length
	inB := b.start[1] == y && b.start[2] == z && x >= b.start[0] && x < b.start[0]+b.length
	vh.Assert(a.Within(Point3d{x, y, z}) == inA, "RLE.Within = membership")
	if inA && inB {
		vh.Assert(a.Intersects(b), "runs sharing a voxel intersect")
	}
	frags := a.Excise(b)
	if frags == nil {
		vh.Assert(!(inA && inB), "Excise returns nil only for disjoint runs")
	} else {
		vh.Assert(vIn(frags, x, y, z) == (inA && !inB), "Excise = a minus b")
		vh.Assert(vCount(frags, x, y, z) <= 1, "Excise fragments do not overlap")
	}
	sameStart := a.start == b.start
	vh.Assert(!(a.Less(b) && b.Less(a)) && (sameStart == (!a.Less(b) && !b.Less(a))), "Less is a strict order on start points")
	vh.Reach("end")
}

func vRunsAny(n int) RLEs {
	const lim = 1 << 20
	rles := make(RLEs, n)
	for i := 0; i < n; i++ {
		x, y, z, l := vh.I32("rx"), vh.I32("ry"), vh.I32("rz"), vh.I32("rl")
		vh.Assume(x > -lim && x < lim && y > -lim && y < lim && z > -lim && z < lim && l >= 1 && l < lim)
		rles[i] = RLE{Point3d{x, y, z}, l}
	}
	return rles
}

// VerifC18_Normalize: same voxel set, sorted, no two runs adjacent or overlapping.  Param 0: number of runs.
func VerifC18_Normalize() {
	n := vh.Param(0)
	rles := vRuns(n)
	orig := append(RLEs{}, rles...)
	norm := rles.Normalize()
	x, y, z := vVoxel()
	vh.Assert(vIn(norm, x, y, z) == vIn(orig, x, y, z), "Normalize keeps exactly the same voxel set")
	vh.Assert(vCount(norm, x, y, z) <= 1, "normalized runs do not overlap")
	for i := 0; i+1 < len(norm); i++ {
		a, b := norm[i], norm[i+1]
		vh.Assert(a.Less(b), "normalized runs are sorted")
		vh.Assert(!(a.start[1] == b.start[1] && a.start[2] == b.start[2] && a.start[0]+a.length == b.start[0]), "no directly adjacent runs remain")
	}
	for i := range rles {
		vh.Assert(rles[i] == orig[i], "Normalize does not modify its receiver")
	}
	var tot, tot2 uint64
	for _, r := range orig {
		tot += uint64(r.length)
	}
	for _, r := range norm {
		tot2 += uint64(r.length)
	}
	vh.Assert(tot == tot2, "voxel count preserved")
	vh.Reach("end")
}

// VerifC18_Partition: fragments lie in the block they are filed under; union = input.  Params: runs, block size.
func VerifC18_Partition() {
	n, bs := vh.Param(0), int32(vh.Param(1))
	rles := vRuns(n)
	// keep runs short enough that they span at most 3 blocks (bounds the loop; longer runs are outside the claim)
	for _, r := range rles {
		vh.Assume(r.length <= 2*bs+1)
	}
	size := Point3d{bs, bs, bs}
	brles, err := rles.Partition(size)
	vh.Assert(err == nil, "Partition succeeds")
	x, y, z := vVoxel()
	inAny, count := false, 0
	for key, frs := range brles {
		bx, by, bz, err := key.Unpack()
		vh.Assert(err == nil, "block key decodes")
		for _, f := range frs {
			first := f.start.Chunk(size).(ChunkPoint3d)
			last := Point3d{f.start[0] + f.length - 1, f.start[1], f.start[2]}.Chunk(size).(ChunkPoint3d)
			vh.Assert(f.length >= 1 && first == ChunkPoint3d{bx, by, bz} && last == first, "fragment lies entirely in the block it is filed under")
		}
		if vIn(frs, x, y, z) {
			inAny = true
		}
		count += vCount(frs, x, y, z)
	}
	vh.Assert(inAny == vIn(rles, x, y, z), "Partition keeps exactly the same voxel set")
	vh.Assert(count <= 1, "no voxel appears in two fragments")
	vh.Reach("end")
}

// VerifC18_Split: removing a subset leaves exactly the difference.  Params: runs in the original, runs in the subset.
func VerifC18_Split() {
	n, k := vh.Param(0), vh.Param(1)
	rles := vRuns(n)
	// subset: k sub-runs, each inside some original run, pairwise disjoint
	sub := make(RLEs, k)
	for i := 0; i < k; i++ {
		which := vh.Choice("which", n)
		off, l := vh.I32("soff"), vh.I32("slen")
		o := rles[which]
		vh.Assume(off >= 0 && off < 1<<20 && l >= 1 && l < 1<<20 && off+l <= o.length)
		sub[i] = RLE{Point3d{o.start[0] + off, o.start[1], o.start[2]}, l}
	}
	for i := 0; i < k; i++ {
		for j := i + 1; j < k; j++ {
			vh.Assume(!sub[i].Intersects(sub[j]))
		}
	}
	orig := append(RLEs{}, rles...)
	remain, err := rles.Split(sub)
	vh.Assert(err == nil, "Split of a subset succeeds")
	x, y, z := vVoxel()
	vh.Assert(vIn(remain, x, y, z) == (vIn(orig, x, y, z) && !vIn(sub, x, y, z)), "Split leaves exactly original minus subset")
	vh.Assert(vCount(remain, x, y, z) <= 1, "remainder runs do not overlap")
	vh.Reach("end")
}

// VerifC18_FitToBounds: clipping keeps exactly the voxels inside the bounds.  Params: runs, bitmask of bounds that are set
// (1 minx, 2 miny, 4 minz, 8 maxx, 16 maxy, 32 maxz).
func VerifC18_FitToBounds() {
	n := vh.Param(0)
	rles := vRuns(n)
	var b OptionalBounds
	lo := [3]int32{vh.I32("minx"), vh.I32("miny"), vh.I32("minz")}
	hi := [3]int32{vh.I32("maxx"), vh.I32("maxy"), vh.I32("maxz")}
	mask := vh.Param(1)
	has := [6]bool{mask&1 != 0, mask&2 != 0, mask&4 != 0, mask&8 != 0, mask&16 != 0, mask&32 != 0}
	const lim = 1 << 21
	for d := 0; d < 3; d++ {
		vh.Assume(lo[d] > -lim && lo[d] < lim && hi[d] > -lim && hi[d] < lim)
	}
	if has[0] {
		b.SetMinX(lo[0])
	}
	if has[1] {
		b.SetMinY(lo[1])
	}
	if has[2] {
		b.SetMinZ(lo[2])
	}
	if has[3] {
		b.SetMaxX(hi[0])
	}
	if has[4] {
		b.SetMaxY(hi[1])
	}
	if has[5] {
		b.SetMaxZ(hi[2])
	}
	orig := append(RLEs{}, rles...)
	out := rles.FitToBounds(&b)
	x, y, z := vVoxel()
	inside := (!has[0] || x >= lo[0]) && (!has[1] || y >= lo[1]) && (!has[2] || z >= lo[2]) &&
		(!has[3] || x <= hi[0]) && (!has[4] || y <= hi[1]) && (!has[5] || z <= hi[2])
	vh.Assert(vIn(out, x, y, z) == (vIn(orig, x, y, z) && inside), "FitToBounds keeps exactly the voxels inside the bounds")
	for i := range rles {
		vh.Assert(rles[i] == orig[i], "FitToBounds does not modify its receiver")
	}
	for _, r := range out {
		vh.Assert(r.length >= 1, "no empty run is emitted")
	}
	vh.Reach("end")
}

// VerifC18_Serialize: binary (de)serialisation of runs.  Param 0: runs.
func VerifC18_Serialize() {
	n := vh.Param(0)
	rles := vRunsAny(n)
	data, err := rles.MarshalBinary()
	vh.Assert(err == nil && len(data) == 16*n, "MarshalBinary emits 16 bytes per run")
	var back RLEs
	vh.Assert(back.UnmarshalBinary(data) == nil && len(back) == n, "UnmarshalBinary accepts what MarshalBinary wrote")
	for i := range rles {
		vh.Assert(back[i] == rles[i], "runs survive binary round trip")
		one, _ := rles[i].MarshalBinary()
		var r RLE
		vh.Assert(r.UnmarshalBinary(one) == nil && r == rles[i], "single run round trip")
		vh.Assert(bytes.Equal(one, data[16*i:16*i+16]), "RLE and RLEs encodings agree")
	}
	nv, nr := rles.Stats()
	var tot uint64
	for _, r := range rles {
		tot += uint64(r.length)
	}
	vh.Assert(nv == tot && int(nr) == n, "Stats")
	vh.Reach("end")
}

// VerifC18_Add: union of run sets.  Params: runs in receiver, runs added.
func VerifC18_Add() {
	n, k := vh.Param(0), vh.Param(1)
	a := vRuns(n)
	b := vRunsAny(k)
	orig := append(RLEs{}, a...)
	a.Add(b)
	x, y, z := vVoxel()
	vh.Assert(vIn(a, x, y, z) == (vIn(orig, x, y, z) || vIn(b, x, y, z)), "Add yields the union of the voxel sets")
	vh.Reach("end")
}
