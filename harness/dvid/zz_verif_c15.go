//go:build verif

package dvid

import (
	"bytes"
	"hash/crc32"

	"github.com/janelia-flyem/dvid/zzverif/vh"
)

// VerifC15_Format: the one-byte serialization format encodes and decodes compression and checksum
// for every value of both fields (3 + 2 bits).
func VerifC15_Format() {
	f, l, c := vh.U8("format"), vh.U8("level"), vh.U8("checksum")
	sf := EncodeSerializationFormat(Compression{CompressionFormat(f), CompressionLevel(l)}, Checksum(c))
	gf, gc := DecodeSerializationFormat(sf)
	vh.Assert(uint8(gf) == f&0x07 && uint8(gc) == c&0x03, "format byte round-trips compression (3 bits) and checksum (2 bits)")
	comp, err := NewCompression(CompressionFormat(f), CompressionLevel(l))
	if err == nil {
		legal := comp.format == Uncompressed || comp.format == Snappy || comp.format == LZ4 || comp.format == JPEG || comp.format == Gzip
		vh.Assert(legal, "NewCompression only returns supported formats")
		vh.Assert(CompressionLevel(l) != NoCompression || comp.format == Uncompressed, "level 0 means uncompressed")
		if comp.format == Gzip {
			vh.Assert(comp.level == DefaultCompression || (comp.level >= 1 && comp.level <= 9), "gzip level in range")
		}
	}
	vh.Reach("end")
}

func vFormat(i int) CompressionFormat {
	switch i {
	case 0:
		return Uncompressed
	case 1:
		return Snappy
	default:
		return LZ4
	}
}

// VerifC15_RoundTrip: DeserializeData(SerializeData(p)) == p.
// Params: compression (0 none, 1 snappy [real pure-Go code], 2 lz4 [codec contract]), checksum (0/1), payload length.
func VerifC15_RoundTrip() {
	format, checksum, n := vFormat(vh.Param(0)), Checksum(vh.Param(1)), vh.Param(2)
	payload := vh.Bytes("payload", n)
	orig := append([]byte{}, payload...)
	comp, err := NewCompression(format, DefaultCompression)
	vh.Assert(err == nil, "compression constructible")
	s, err := SerializeData(payload, comp, checksum)
	vh.Assert(err == nil, "serialization succeeds")
	vh.Assert(bytes.Equal(payload, orig), "serialization does not modify its input")
	if n == 0 {
		vh.Assert(len(s) == 0, "empty payload serializes to empty value")
	} else {
		gf, gc := DecodeSerializationFormat(SerializationFormat(s[0]))
		vh.Assert(gf == format && gc == checksum, "stored header names the compression and checksum used")
	}
	out, gotFormat, err := DeserializeData(s, true)
	vh.Assert(err == nil, "deserialization of a serialized value succeeds")
	vh.Assert(bytes.Equal(out, orig), "round trip returns the identical bytes")
	if n > 0 {
		vh.Assert(gotFormat == format, "reported format matches")
	}
	// without decompression the stored (possibly compressed) bytes come back and can be decompressed later
	raw, _, err := DeserializeData(s, false)
	vh.Assert(err == nil, "deserialization without decompression succeeds")
	if format == Uncompressed {
		vh.Assert(bytes.Equal(raw, orig), "uncompressed raw = payload")
	}
	if n > 0 && n <= 4 {
		vh.ObserveBytes("out", out)
	}
	vh.Reach("end")
}

// VerifC15_Precompressed: SerializePrecompressedData + DeserializeData(uncompress=false) returns the given bytes.
// Params: checksum, length.
func VerifC15_Precompressed() {
	checksum, n := Checksum(vh.Param(0)), vh.Param(1)
	payload := vh.Bytes("payload", n)
	f := vh.U8("format")
	vh.Assume(f == uint8(Uncompressed) || f == uint8(Snappy) || f == uint8(LZ4) || f == uint8(Gzip) || f == uint8(JPEG))
	comp := Compression{CompressionFormat(f), DefaultCompression}
	s, err := SerializePrecompressedData(payload, comp, checksum)
	vh.Assert(err == nil, "serialization succeeds")
	out, gf, err := DeserializeData(s, false)
	vh.Assert(err == nil && bytes.Equal(out, payload), "precompressed bytes returned unchanged")
	if n > 0 {
		vh.Assert(uint8(gf) == f, "format reported")
	}
	vh.Reach("end")
}

// VerifC15_NoPanic: no byte string makes DeserializeData panic; with CRC32 in the header, data is only returned
// if the stored word equals the CRC of the stored payload.  Param 0: input length.
func VerifC15_NoPanic() {
	n := vh.Param(0)
	vh.Abstract("github.com/golang/snappy.Decode")
	s := vh.Bytes("stored", n)
	uncompress := vh.Bool("uncompress")
	keep := append([]byte{}, s...)
	out, _, err := DeserializeData(s, uncompress)
	if err == nil && n >= 5 {
		_, cs := DecodeSerializationFormat(SerializationFormat(keep[0]))
		if cs == CRC32 {
			stored := uint32(keep[1]) | uint32(keep[2])<<8 | uint32(keep[3])<<16 | uint32(keep[4])<<24
			vh.Assert(crc32.ChecksumIEEE(keep[5:]) == stored, "data returned only if the stored CRC matches the payload")
		}
	}
	_ = out
	vh.Reach("end")
}

// VerifC15_Corruption: with CRC32, altering the payload of a stored value within one burst of <= 32 bits is reported.
// Params: payload length, byte position of the burst start.
func VerifC15_Corruption() {
	n, pos := vh.Param(0), vh.Param(1)
	payload := vh.Bytes("payload", n)
	comp, _ := NewCompression(Uncompressed, DefaultCompression)
	s, err := SerializeData(payload, comp, CRC32)
	vh.Assert(err == nil && len(s) == n+5, "serialized with 5-byte header")
	mask := vh.Bytes("mask", 4)
	vh.Assume(mask[0]|mask[1]|mask[2]|mask[3] != 0)
	for i := 0; i < 4; i++ {
		if pos+i < n {
			s[5+pos+i] ^= mask[i]
		} else {
			vh.Assume(mask[i] == 0)
		}
	}
	_, _, err = DeserializeData(s, true)
	vh.Assert(err != nil, "corrupted payload (burst <= 32 bits) is rejected")
	vh.Reach("end")
}

// VerifC20_RLEParse: no byte string makes the sparse-volume parsers panic.  Params: input length, parser
// (0 RLEs.UnmarshalBinary, 1 ReadRLEs, 2 IZYXSlice.UnmarshalBinary, 3 RLE.UnmarshalBinary).
func VerifC20_RLEParse() {
	n, which := vh.Param(0), vh.Param(1)
	data := vh.Bytes("input", n)
	switch which {
	case 0:
		var rles RLEs
		if rles.UnmarshalBinary(data) == nil {
			vh.Assert(len(rles)*16 == n, "one run per 16 bytes")
			back, _ := rles.MarshalBinary()
			vh.Assert(bytes.Equal(back, data), "accepted input re-serialises to itself")
		}
	case 1:
		vh.MakeBound(4)
		rles, err := ReadRLEs(bytes.NewBuffer(data))
		if err == nil {
			vh.Assert(len(rles)*16+12 <= n, "ReadRLEs returns no more runs than the input holds")
		}
	case 2:
		var s IZYXSlice
		if s.UnmarshalBinary(data) == nil {
			vh.Assert(len(s)*12 == n, "one block coordinate per 12 bytes")
			back, _ := s.MarshalBinary()
			vh.Assert(bytes.Equal(back, data), "accepted input re-serialises to itself")
		}
	default:
		var r RLE
		if r.UnmarshalBinary(data) == nil {
			vh.Assert(n == 16, "a run is 16 bytes")
		}
	}
	vh.Reach("end")
}
