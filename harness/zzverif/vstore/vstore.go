//go:build verif

// Package vstore is a model key-value store for the /verif harnesses: an unordered list of (key, value) pairs
// with exact-key Put/Get/Delete, raw range scans in ascending key order, atomic batches, a write counter and a
// crash point (writes after the CrashAt-th are dropped: "the process died before they reached the store").
// It stands for the documented contract of an ordered key-value engine; DVID's own code above it is real.
package vstore

import (
	"bytes"
	"fmt"

	"github.com/janelia-flyem/dvid/dvid"
	"github.com/janelia-flyem/dvid/storage"
)

type KV struct {
	K storage.Key
	V []byte
}

type Store struct {
	storage.OrderedKeyValueDB // nil: any method not modelled panics (reported by the engine as a nil-interface call)

	KVs     []KV
	Writes  int // write operations issued so far (each Put/Delete/batch commit counts one)
	CrashAt int // -1: never; otherwise only the first CrashAt write operations take effect
	Reads   int
}

func New() *Store { return &Store{CrashAt: -1} }

func (s *Store) String() string { return "verif model store" }
func (s *Store) Close()         {}
func (s *Store) Equal(c dvid.StoreConfig) bool { return false }
func (s *Store) GetStoreConfig() dvid.StoreConfig { return dvid.StoreConfig{} }

func (s *Store) alive() bool {
	s.Writes++
	return s.CrashAt < 0 || s.Writes <= s.CrashAt
}

func (s *Store) find(k storage.Key) int {
	for i := range s.KVs {
		if bytes.Equal(s.KVs[i].K, k) {
			return i
		}
	}
	return -1
}

func (s *Store) set(k storage.Key, v []byte) {
	kc := append(storage.Key{}, k...)
	vc := append([]byte{}, v...)
	if i := s.find(k); i >= 0 {
		s.KVs[i].V = vc
		return
	}
	s.KVs = append(s.KVs, KV{kc, vc})
}

func (s *Store) del(k storage.Key) {
	if i := s.find(k); i >= 0 {
		s.KVs = append(s.KVs[:i], s.KVs[i+1:]...)
	}
}

// RawGet returns the value stored under exactly this key (nil if absent).
func (s *Store) RawGet(k storage.Key) ([]byte, error) {
	s.Reads++
	if i := s.find(k); i >= 0 {
		return append([]byte{}, s.KVs[i].V...), nil
	}
	return nil, nil
}

func (s *Store) RawPut(k storage.Key, v []byte) error {
	if s.alive() {
		s.set(k, v)
	}
	return nil
}

func (s *Store) RawDelete(k storage.Key) error {
	if s.alive() {
		s.del(k)
	}
	return nil
}

// Get: exact-key read for unversioned contexts (metadata, per-instance counters).
func (s *Store) Get(ctx storage.Context, tk storage.TKey) ([]byte, error) {
	if ctx == nil {
		return nil, fmt.Errorf("nil context")
	}
	// Versioned contexts: only the context's own version is consulted (exact key, tombstone = absent).  This is
	// the documented result for a version with no ancestor holding the datum - harnesses using it keep to a
	// root-only repo; ancestor resolution is the subject of the C01/C05 harnesses.
	return s.RawGet(ctx.ConstructKey(tk))
}

func (s *Store) Exists(ctx storage.Context, tk storage.TKey) (bool, error) {
	v, err := s.Get(ctx, tk)
	return v != nil, err
}

// Put writes the key; in a versioned context it also removes the same-version tombstone, atomically.
func (s *Store) Put(ctx storage.Context, tk storage.TKey, v []byte) error {
	if ctx == nil {
		return fmt.Errorf("nil context")
	}
	if !s.alive() {
		return nil
	}
	s.set(ctx.ConstructKey(tk), v)
	if ctx.Versioned() {
		if vctx, ok := ctx.(storage.VersionedCtx); ok {
			s.del(vctx.TombstoneKey(tk))
		}
	}
	return nil
}

// Delete removes the key; in a versioned context it leaves a tombstone, atomically.
func (s *Store) Delete(ctx storage.Context, tk storage.TKey) error {
	if ctx == nil {
		return fmt.Errorf("nil context")
	}
	if !s.alive() {
		return nil
	}
	s.del(ctx.ConstructKey(tk))
	if ctx.Versioned() {
		if vctx, ok := ctx.(storage.VersionedCtx); ok {
			s.set(vctx.TombstoneKey(tk), dvid.EmptyValue())
		}
	}
	return nil
}

// Sorted returns the stored pairs in ascending key order (selection by repeated minimum; lists are tiny).
func (s *Store) Sorted() []KV {
	rest := append([]KV{}, s.KVs...)
	var out []KV
	for len(rest) > 0 {
		m := 0
		for i := 1; i < len(rest); i++ {
			if bytes.Compare(rest[i].K, rest[m].K) < 0 {
				m = i
			}
		}
		out = append(out, rest[m])
		rest = append(rest[:m], rest[m+1:]...)
	}
	return out
}

// RawRangeQuery sends every pair with kStart <= key <= kEnd in ascending key order, then nil.
func (s *Store) RawRangeQuery(kStart, kEnd storage.Key, keysOnly bool, out chan *storage.KeyValue, cancel <-chan struct{}) error {
	for _, kv := range s.Sorted() {
		if bytes.Compare(kv.K, kStart) >= 0 && bytes.Compare(kv.K, kEnd) <= 0 {
			c := &storage.KeyValue{K: append(storage.Key{}, kv.K...)}
			if !keysOnly {
				c.V = append([]byte{}, kv.V...)
			}
			out <- c
		}
	}
	out <- nil
	return nil
}

// GetRange returns the pairs of an unversioned context with kStart <= tkey <= kEnd in ascending key order.
func (s *Store) GetRange(ctx storage.Context, kStart, kEnd storage.TKey) ([]*storage.TKeyValue, error) {
	if ctx == nil {
		return nil, fmt.Errorf("nil context")
	}
	lo, hi := ctx.ConstructKey(kStart), ctx.ConstructKey(kEnd)
	var out []*storage.TKeyValue
	for _, kv := range s.Sorted() {
		if bytes.Compare(kv.K, lo) >= 0 && bytes.Compare(kv.K, hi) <= 0 {
			tk, err := storage.TKeyFromKey(kv.K)
			if err != nil {
				return nil, err
			}
			out = append(out, &storage.TKeyValue{K: tk, V: append([]byte{}, kv.V...)})
		}
	}
	return out, nil
}

// ---- batches -------------------------------------------------------------------------------

type batchOp struct {
	del bool
	tk  storage.TKey
	v   []byte
}

type Batch struct {
	s   *Store
	ctx storage.Context
	ops []batchOp
}

func (s *Store) NewBatch(ctx storage.Context) storage.Batch { return &Batch{s: s, ctx: ctx} }

// Put: like DVID's Badger batch, the value slice is referenced (not copied) until Commit - a caller that reuses the
// buffer before committing sees the later content stored.  The key is built from a copy of tk at once, as there.
func (b *Batch) Put(tk storage.TKey, v []byte) {
	b.ops = append(b.ops, batchOp{tk: append(storage.TKey{}, tk...), v: v})
}
func (b *Batch) Delete(tk storage.TKey) {
	b.ops = append(b.ops, batchOp{del: true, tk: append(storage.TKey{}, tk...)})
}

// Commit applies all operations atomically (one write operation for crash purposes).
func (b *Batch) Commit() error {
	if !b.s.alive() {
		return nil
	}
	vctx, versioned := b.ctx.(storage.VersionedCtx)
	versioned = versioned && b.ctx.Versioned()
	for _, op := range b.ops {
		k := b.ctx.ConstructKey(op.tk)
		if op.del {
			b.s.del(k)
			if versioned {
				b.s.set(vctx.TombstoneKey(op.tk), dvid.EmptyValue())
			}
		} else {
			b.s.set(k, op.v)
			if versioned {
				b.s.del(vctx.TombstoneKey(op.tk))
			}
		}
	}
	b.ops = nil
	return nil
}

// Clone copies the store contents (for before/after comparisons and restart simulation).
func (s *Store) Clone() *Store {
	c := New()
	for _, kv := range s.KVs {
		c.KVs = append(c.KVs, KV{append(storage.Key{}, kv.K...), append([]byte{}, kv.V...)})
	}
	return c
}
