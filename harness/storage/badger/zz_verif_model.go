//go:build verif

package badger

import (
	"github.com/dgraph-io/badger/v3"
	"github.com/janelia-flyem/dvid/storage"
)

// VerifNewModelDB returns DVID's real Badger engine wrapper over the model of the Badger library.
func VerifNewModelDB() (*BadgerDB, *badger.DB) {
	m := badger.NewModel()
	if storage.StoreKeyBytesRead == nil {
		storage.StoreKeyBytesRead = make(chan int, 1<<20)
		storage.StoreValueBytesRead = make(chan int, 1<<20)
		storage.StoreKeyBytesWritten = make(chan int, 1<<20)
		storage.StoreValueBytesWritten = make(chan int, 1<<20)
	}
	return &BadgerDB{directory: "model", options: &badger.Options{}, bdp: m}, m
}
