//go:build verif

package storage

import (
	"bytes"

	"github.com/janelia-flyem/dvid/dvid"
	"github.com/janelia-flyem/dvid/zzverif/vh"
)

// vData is a minimal dvid.Data: only the instance id matters for key construction.
type vData struct {
	dvid.Data
	id dvid.InstanceID
}

func (d *vData) InstanceID() dvid.InstanceID { return d.id }

func vSign(x int) int {
	if x < 0 {
		return -1
	}
	if x > 0 {
		return 1
	}
	return 0
}

func vCmpU32(a, b uint32) int {
	if a < b {
		return -1
	}
	if a > b {
		return 1
	}
	return 0
}

// reference order: (instance, tkey bytes, version, client, marker)
func vRefOrder(i1, i2 uint32, t1, t2 []byte, v1, v2, c1, c2 uint32, m1, m2 byte) int {
	if c := vCmpU32(i1, i2); c != 0 {
		return c
	}
	for k := range t1 {
		if t1[k] != t2[k] {
			if t1[k] < t2[k] {
				return -1
			}
			return 1
		}
	}
	if c := vCmpU32(v1, v2); c != 0 {
		return c
	}
	if c := vCmpU32(c1, c2); c != 0 {
		return c
	}
	return vCmpU32(uint32(m1), uint32(m2))
}

func vCtx(name string) (*DataContext, uint32, uint32, uint32) {
	i, v, c := vh.U32(name+".inst"), vh.U32(name+".ver"), vh.U32(name+".client")
	ctx := NewDataContext(&vData{id: dvid.InstanceID(i)}, dvid.VersionID(v))
	ctx.client = dvid.ClientID(c)
	return ctx, i, v, c
}

// VerifC06_RoundTrip: every component is recoverable from a storage key (data key and tombstone key).
// Param 0: TKey length.
func VerifC06_RoundTrip() {
	n := vh.Param(0)
	ctx, i, v, c := vCtx("k")
	tk := TKey(vh.Bytes("tk", n))
	tomb := vh.Bool("tomb")
	var key Key
	if tomb {
		key = ctx.TombstoneKey(tk)
	} else {
		key = ctx.ConstructKey(tk)
	}
	vh.Assert(len(key) == n+14, "key length = 14 + len(tkey)")
	vh.Assert(key.IsDataKey(), "constructed key is a data key")
	vh.Assert(key.IsTombstone() == tomb, "marker recoverable")
	gi, gv, gc, err := DataKeyToLocalIDs(key)
	vh.Assert(err == nil && uint32(gi) == i && uint32(gv) == v && uint32(gc) == c, "DataKeyToLocalIDs recovers ids")
	gi2, err := ctx.InstanceFromKey(key)
	vh.Assert(err == nil && uint32(gi2) == i, "InstanceFromKey")
	gv2, err := ctx.VersionFromKey(key)
	vh.Assert(err == nil && uint32(gv2) == v, "VersionFromKey")
	gv3, err := VersionFromDataKey(key)
	vh.Assert(err == nil && uint32(gv3) == v, "VersionFromDataKey")
	gc2, err := ctx.ClientFromKey(key)
	vh.Assert(err == nil && uint32(gc2) == c, "ClientFromKey")
	gt, err := TKeyFromKey(key)
	vh.Assert(err == nil && bytes.Equal(gt, tk), "TKeyFromKey recovers the datum key")
	unv, ver, err := SplitKey(key)
	vh.Assert(err == nil && bytes.Equal(MergeKey(unv, ver), key), "SplitKey/MergeKey")
	vh.Assert(bytes.Equal(unv, ctx.UnversionedKeyPrefix(tk)), "unversioned part = prefix of all versions")
	// versioned constructors agree with the context ones
	v2 := vh.U32("v2")
	k2 := ctx.ConstructKeyVersion(tk, dvid.VersionID(v2))
	gv4, _ := ctx.VersionFromKey(k2)
	vh.Assert(uint32(gv4) == v2 && !k2.IsTombstone(), "ConstructKeyVersion carries the given version")
	t2 := ctx.TombstoneKeyVersion(tk, dvid.VersionID(v2))
	gv5, _ := ctx.VersionFromKey(t2)
	vh.Assert(uint32(gv5) == v2 && t2.IsTombstone(), "TombstoneKeyVersion carries the given version")
	vh.Assert(bytes.Equal(k2[:len(k2)-1], t2[:len(t2)-1]), "data and tombstone keys differ only in the marker")
	vh.Reach("end")
}

// VerifC06_Order: byte order of storage keys = (instance, tkey, version, client, marker) for equal-length tkeys.
// Param 0: TKey length.
func VerifC06_Order() {
	n := vh.Param(0)
	ctx1, i1, v1, c1 := vCtx("a")
	ctx2, i2, v2, c2 := vCtx("b")
	t1, t2 := vh.Bytes("ta", n), vh.Bytes("tb", n)
	m1, m2 := vh.Bool("ma"), vh.Bool("mb")
	mk := func(ctx *DataContext, t []byte, tomb bool) (Key, byte) {
		if tomb {
			return ctx.TombstoneKey(TKey(t)), MarkTombstone
		}
		return ctx.ConstructKey(TKey(t)), MarkData
	}
	k1, b1 := mk(ctx1, t1, m1)
	k2, b2 := mk(ctx2, t2, m2)
	want := vRefOrder(i1, i2, t1, t2, v1, v2, c1, c2, b1, b2)
	got := vSign(bytes.Compare(k1, k2))
	vh.Assert(got == want, "key order = (instance, tkey, version, client, marker)")
	vh.Assert((got == 0) == (i1 == i2 && bytes.Equal(t1, t2) && v1 == v2 && c1 == c2 && m1 == m2), "equal keys iff equal components")
	vh.Reach("end")
}

func vIsPrefix(a, b []byte) bool {
	if len(a) > len(b) {
		return false
	}
	for i := range a {
		if a[i] != b[i] {
			return false
		}
	}
	return true
}

// VerifC06_VersionBounds: all versions of one datum lie within [MinVersionKey, MaxVersionKey]; no key of another datum
// of the same instance (admissible per the TKey contract: equal length, or neither a prefix of the other) or of another
// instance lies inside.  Params: len(tk), len(other tk).
func VerifC06_VersionBounds() {
	n, n2 := vh.Param(0), vh.Param(1)
	ctx, i, _, _ := vCtx("k")
	tk := TKey(vh.Bytes("tk", n))
	minK, err1 := ctx.MinVersionKey(tk)
	maxK, err2 := ctx.MaxVersionKey(tk)
	vh.Assert(err1 == nil && err2 == nil, "bounds constructible")
	// any version/client/marker of this datum is inside
	v, c := vh.U32("v"), vh.U32("c")
	in := NewDataContext(&vData{id: dvid.InstanceID(i)}, dvid.VersionID(v))
	in.client = dvid.ClientID(c)
	var key Key
	if vh.Bool("tomb") {
		key = in.TombstoneKey(tk)
	} else {
		key = in.ConstructKey(tk)
	}
	vh.Assert(bytes.Compare(minK, key) <= 0 && bytes.Compare(key, maxK) <= 0, "every version of the datum is within its version bounds")
	mx := MaxVersionDataKeyFromKey(key)
	vh.Assert(bytes.Equal(mx, maxK), "MaxVersionDataKeyFromKey = MaxVersionKey of the datum")
	mx2, _ := MaxVersionDataKey(dvid.InstanceID(i), tk)
	vh.Assert(bytes.Equal(mx2, maxK), "MaxVersionDataKey = MaxVersionKey")
	// another datum / instance is outside
	octx, oi, _, _ := vCtx("o")
	otk := TKey(vh.Bytes("otk", n2))
	var okey Key
	if vh.Bool("otomb") {
		okey = octx.TombstoneKey(otk)
	} else {
		okey = octx.ConstructKey(otk)
	}
	admissible := n == n2 || (!vIsPrefix(tk, otk) && !vIsPrefix(otk, tk))
	vh.Assume(admissible)
	same := oi == i && bytes.Equal(tk, otk)
	inside := bytes.Compare(minK, okey) <= 0 && bytes.Compare(okey, maxK) <= 0
	vh.Assert(same || !inside, "no other datum's key lies within a datum's version bounds")
	vh.Reach("end")
}

// VerifC06_InstanceRange: instance-wide key ranges contain only that instance's keys (isolation) and,
// for ids below the maximum, all of them (completeness).  Param 0: TKey length.
func VerifC06_InstanceRange() {
	n := vh.Param(0)
	d := vh.U32("d")
	rctx := NewDataContext(&vData{id: dvid.InstanceID(d)}, 0)
	ctx, i, _, _ := vCtx("k")
	tk := TKey(vh.Bytes("tk", n))
	var key Key
	if vh.Bool("tomb") {
		key = ctx.TombstoneKey(tk)
	} else {
		key = ctx.ConstructKey(tk)
	}
	check := func(minK, maxK Key, what string) {
		inside := bytes.Compare(minK, key) <= 0 && bytes.Compare(key, maxK) <= 0
		vh.Assert(!inside || i == d, what+": contains only keys of its own instance")
		if d != dvid.MaxInstanceID {
			vh.Assert(i != d || inside, what+": contains every key of its instance (id < max)")
		}
	}
	a, b := rctx.KeyRange()
	check(a, b, "DataContext.KeyRange")
	a, b = DataInstanceKeyRange(dvid.InstanceID(d))
	check(a, b, "DataInstanceKeyRange")
	// class ranges: a key of class c of this instance is inside its class range; other instance's keys are not
	if n >= 2 {
		cls := TKeyClass(vh.U8("class"))
		a, b = rctx.TKeyClassRange(cls)
		inside := bytes.Compare(a, key) <= 0 && bytes.Compare(key, b) <= 0
		vh.Assert(!inside || (i == d && tk[0] == byte(cls)), "TKeyClassRange contains only keys of its instance and class")
	}
	lo, hi := DataKeyRange()
	_ = hi
	vh.Assert(bytes.Compare(lo, key) <= 0, "DataKeyRange lower bound below every data key")
	vh.Assert(bytes.Compare(MinDataKey(), key) <= 0, "MinDataKey below every data key")
	vh.Reach("end")
}

// VerifC06_Rewrite: in-place key rewrites change exactly the named components.  Param 0: TKey length.
func VerifC06_Rewrite() {
	n := vh.Param(0)
	ctx, _, v, c := vCtx("k")
	tk := TKey(vh.Bytes("tk", n))
	tomb := vh.Bool("tomb")
	mk := func() Key {
		if tomb {
			return ctx.TombstoneKey(tk)
		}
		return ctx.ConstructKey(tk)
	}
	ni, nv, nc := vh.U32("ni"), vh.U32("nv"), vh.U32("nc")
	k := mk()
	vh.Assert(UpdateDataKey(k, dvid.InstanceID(ni), dvid.VersionID(nv), dvid.ClientID(nc)) == nil, "UpdateDataKey accepts a data key")
	gi, gv, gc, _ := DataKeyToLocalIDs(k)
	gt, _ := TKeyFromKey(k)
	vh.Assert(uint32(gi) == ni && uint32(gv) == nv && uint32(gc) == nc && bytes.Equal(gt, tk) && k.IsTombstone() == tomb, "UpdateDataKey rewrites ids only")
	k = mk()
	vh.Assert(ChangeDataKeyInstance(k, dvid.InstanceID(ni)) == nil, "ChangeDataKeyInstance accepts a data key")
	gi, gv, gc, _ = DataKeyToLocalIDs(k)
	gt, _ = TKeyFromKey(k)
	vh.Assert(uint32(gi) == ni && uint32(gv) == v && uint32(gc) == c && bytes.Equal(gt, tk) && k.IsTombstone() == tomb, "ChangeDataKeyInstance rewrites the instance only")
	k = mk()
	vh.Assert(ChangeDataKeyVersion(k, dvid.VersionID(nv)) == nil, "ChangeDataKeyVersion accepts a data key")
	gi2, gv, gc, _ := DataKeyToLocalIDs(k)
	gt, _ = TKeyFromKey(k)
	oi, _ := ctx.InstanceFromKey(mk())
	vh.Assert(gi2 == oi && uint32(gv) == nv && uint32(gc) == c && bytes.Equal(gt, tk) && k.IsTombstone() == tomb, "ChangeDataKeyVersion rewrites the version only")
	k = mk()
	dst := NewDataContext(&vData{id: dvid.InstanceID(ni)}, 0)
	vh.Assert(dst.UpdateInstance(k) == nil, "UpdateInstance accepts a data key")
	gi, gv, gc, _ = DataKeyToLocalIDs(k)
	gt, _ = TKeyFromKey(k)
	vh.Assert(uint32(gi) == ni && uint32(gv) == v && uint32(gc) == c && bytes.Equal(gt, tk) && k.IsTombstone() == tomb, "UpdateInstance rewrites the instance only")
	vh.Reach("end")
}
