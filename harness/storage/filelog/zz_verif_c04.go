//go:build verif

package filelog

import (
	"bytes"
	"path/filepath"

	"github.com/janelia-flyem/dvid/storage"
	"github.com/janelia-flyem/dvid/zzverif/vh"
)

// VerifC04_LogFraming: k complete records are appended, then one more append is torn at every possible byte
// (the process dies while writing); after a restart the readers must return exactly the completely written
// records - never a truncated, padded or invented one - and must not panic.
// Params: k complete records, payload length of each, payload length of the torn record, reader (0 ReadAll, 1 StreamAll).
func VerifC04_LogFraming() {
	k, dlen, tornLen, mode := vh.Param(0), vh.Param(1), vh.Param(2), vh.Param(3)
	dir := vh.TempDir()
	flogs := &fileLogs{path: dir, files: make(map[string]*fileLog)}
	var want []storage.LogMessage
	for i := 0; i < k; i++ {
		msg := storage.LogMessage{EntryType: vh.U16("type"), Data: vh.Bytes("data", dlen)}
		vh.Assert(flogs.Append("d", "v", msg) == nil, "Append succeeds")
		want = append(want, msg)
	}
	total := 6 + tornLen
	cut := vh.Choice("cut", total+1) // bytes of the last append that reach the disk
	torn := storage.LogMessage{EntryType: vh.U16("ttype"), Data: vh.Bytes("tdata", tornLen)}
	vh.TornWrite(filepath.Join(dir, "d-v"), cut, func() { flogs.Append("d", "v", torn) })
	if cut == total {
		want = append(want, torn)
	}

	// restart: a new process reads the log
	flogs2 := &fileLogs{path: dir, files: make(map[string]*fileLog)}
	var got []storage.LogMessage
	if mode == 0 {
		var err error
		got, err = flogs2.ReadAll("d", "v")
		vh.Assert(err == nil, "ReadAll reports no I/O error")
	} else {
		ch := make(chan storage.LogMessage, 64)
		err := flogs2.StreamAll("d", "v", ch)
		vh.Assert(err == nil, "StreamAll reports no I/O error")
		for m := range ch {
			got = append(got, m)
		}
	}
	vh.Assert(len(got) == len(want), "exactly the completely written records are returned (none dropped, none invented)")
	for i := range got {
		if i < len(want) {
			vh.Assert(got[i].EntryType == want[i].EntryType && bytes.Equal(got[i].Data, want[i].Data), "each returned record is a record that was written, unpadded and untruncated")
		}
	}
	vh.Reach("end")
}

// VerifC04_ArbitraryLog: whatever bytes a crash (or anything else) left in a log file, the readers do not panic and
// return exactly the records whose framing is complete.  Params: file length, reader (0 ReadAll, 1 StreamAll).
func VerifC04_ArbitraryLog() {
	n, mode := vh.Param(0), vh.Param(1)
	dir := vh.TempDir()
	content := vh.Bytes("file", n)
	vWriteFile(filepath.Join(dir, "d-v"), content)

	// reference parse: a record is complete iff its 6-byte header and its announced payload are wholly present
	type rec struct {
		typ        uint16
		start, end int
	}
	var want []rec
	pos := 0
	for pos+6 <= n {
		typ := uint16(content[pos]) | uint16(content[pos+1])<<8
		size := int(uint32(content[pos+2]) | uint32(content[pos+3])<<8 | uint32(content[pos+4])<<16 | uint32(content[pos+5])<<24)
		if size > n-pos-6 {
			break
		}
		want = append(want, rec{typ, pos + 6, pos + 6 + size})
		pos += 6 + size
	}

	flogs := &fileLogs{path: dir, files: make(map[string]*fileLog)}
	var got []storage.LogMessage
	if mode == 0 {
		got, _ = flogs.ReadAll("d", "v")
	} else {
		ch := make(chan storage.LogMessage, 64)
		flogs.StreamAll("d", "v", ch)
		for m := range ch {
			got = append(got, m)
		}
	}
	vh.Assert(len(got) == len(want), "exactly the completely framed records are returned")
	for i := range got {
		if i < len(want) {
			vh.Assert(got[i].EntryType == want[i].typ && bytes.Equal(got[i].Data, content[want[i].start:want[i].end]), "record content is the bytes in the file")
		}
	}
	vh.Reach("end")
}
