//go:build verif

package filelog

import "os"

func vWriteFile(name string, content []byte) {
	f, err := os.OpenFile(name, os.O_WRONLY|os.O_CREATE|os.O_APPEND, 0644)
	if err != nil {
		panic("VERIF-VECTOR: cannot create file")
	}
	f.Write(content)
	f.Close()
}

// VerifNewLogs returns the real file log store rooted at dir (the model file system in the engine, a temp dir natively).
func VerifNewLogs(dir string) *fileLogs {
	return &fileLogs{path: dir, files: make(map[string]*fileLog)}
}
