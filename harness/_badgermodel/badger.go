// Package badger: MODEL of github.com/dgraph-io/badger/v3 used by the /verif harnesses (injected by overlay in
// place of the real package, for the symbolic engine and for native replay alike).  It states the documented
// contract DVID relies on: an ordered key-value store with byte-lexicographic iteration, snapshot reads inside
// View, atomic read-write transactions in Update, and write batches that apply on Flush.  A crash point drops
// every transaction / batch after the CrashAt-th committed one.  Badger's implementation is outside every claim.
package badger

import (
	"bytes"
	"sync/atomic"
	"github.com/pkg/errors"
)

// modelErr: plain error values (the real library builds its sentinels with pkg/errors.New, which records a stack
// trace; callers only compare them with ==).
type modelErr string

func (e modelErr) Error() string { return string(e) }

var ErrKeyNotFound error = modelErr("Key not found")

var _ = errors.New // the model may import only packages the real library imports

type Options struct {
	Dir, ValueDir     string
	ReadOnly          bool
	SyncWrites        bool
	NumVersionsToKeep int
	ValueThreshold    int64
	ValueLogFileSize  int64
}

func DefaultOptions(path string) Options { return Options{Dir: path, ValueDir: path, NumVersionsToKeep: 1} }
func (o Options) WithValueThreshold(v int64) Options   { o.ValueThreshold = v; return o }
func (o Options) WithValueLogFileSize(v int64) Options { o.ValueLogFileSize = v; return o }
func (o Options) WithReadOnly(b bool) Options          { o.ReadOnly = b; return o }

type entry struct {
	k, v []byte
}

type DB struct {
	opts    Options
	mu      int32 // spin lock: the real library is safe for concurrent use, and native replays run real goroutines
	kvs     []entry
	Commits int // committed write transactions / flushed batches so far
	CrashAt int // -1 never; otherwise only the first CrashAt commits take effect
	Writes  int // individual Set/Delete operations that took effect
}

// NewModel returns an empty model database (harness entry point; badger.Open is equivalent).
func NewModel() *DB { return &DB{CrashAt: -1} }

func Open(opts Options) (*DB, error) { return &DB{opts: opts, CrashAt: -1}, nil }
func (db *DB) Close() error          { return nil }
func (db *DB) Sync() error           { return nil }

func (db *DB) find(k []byte) int {
	for i := range db.kvs {
		if bytes.Equal(db.kvs[i].k, k) {
			return i
		}
	}
	return -1
}

// set keeps kvs in ascending key order (insertion), so iterators need no sorting.
func (db *DB) set(k, v []byte) {
	db.Writes++
	kc, vc := append([]byte{}, k...), append([]byte{}, v...)
	pos := len(db.kvs)
	for i := range db.kvs {
		c := bytes.Compare(db.kvs[i].k, k)
		if c == 0 {
			db.kvs[i].v = vc
			return
		}
		if c > 0 {
			pos = i
			break
		}
	}
	db.kvs = append(db.kvs, entry{})
	copy(db.kvs[pos+1:], db.kvs[pos:])
	db.kvs[pos] = entry{kc, vc}
}

func (db *DB) del(k []byte) {
	db.Writes++
	if i := db.find(k); i >= 0 {
		db.kvs = append(db.kvs[:i], db.kvs[i+1:]...)
	}
}

// Len returns the number of stored pairs; Pairs the stored pairs in ascending key order (harness helpers).
func (db *DB) Len() int { return len(db.kvs) }
func (db *DB) Pairs() (keys, vals [][]byte) {
	for _, e := range db.sorted() {
		keys = append(keys, e.k)
		vals = append(vals, e.v)
	}
	return
}

// RawSet / RawGet bypass transactions (harness set-up).
func (db *DB) RawSet(k, v []byte) { db.set(k, v); db.Writes-- }
func (db *DB) RawGet(k []byte) ([]byte, bool) {
	if i := db.find(k); i >= 0 {
		return db.kvs[i].v, true
	}
	return nil, false
}

func (db *DB) lock() {
	for !atomic.CompareAndSwapInt32(&db.mu, 0, 1) {
	}
}
func (db *DB) unlock() { atomic.StoreInt32(&db.mu, 0) }

func (db *DB) sorted() []entry {
	db.lock()
	defer db.unlock()
	return append([]entry{}, db.kvs...)
}

type op struct {
	del  bool
	k, v []byte
}

type Txn struct {
	db     *DB
	update bool
	ops    []op // pending writes of an update transaction
}

func (db *DB) View(fn func(txn *Txn) error) error { return fn(&Txn{db: db}) }

// Update runs fn and, if it returns nil, applies all its writes atomically (one commit).
func (db *DB) Update(fn func(txn *Txn) error) error {
	txn := &Txn{db: db, update: true}
	if err := fn(txn); err != nil {
		return err
	}
	db.commit(txn.ops)
	return nil
}

func (db *DB) commit(ops []op) {
	if len(ops) == 0 {
		return
	}
	db.lock()
	defer db.unlock()
	db.Commits++
	if db.CrashAt >= 0 && db.Commits > db.CrashAt {
		return // the process died before this commit reached the disk
	}
	for _, o := range ops {
		if o.del {
			db.del(o.k)
		} else {
			db.set(o.k, o.v)
		}
	}
}

type Item struct {
	k, v []byte
}

func (it *Item) Key() []byte                  { return it.k }
func (it *Item) KeyCopy(dst []byte) []byte    { return append(dst[:0], it.k...) }
func (it *Item) ValueCopy(dst []byte) ([]byte, error) { return append(dst[:0], it.v...), nil }
func (it *Item) Value(fn func(val []byte) error) error { return fn(it.v) }
func (it *Item) ValueSize() int64             { return int64(len(it.v)) }
func (it *Item) EstimatedSize() int64         { return int64(len(it.k) + len(it.v)) }

func (txn *Txn) Get(key []byte) (*Item, error) {
	// read-your-writes inside an update transaction
	for i := len(txn.ops) - 1; i >= 0; i-- {
		if bytes.Equal(txn.ops[i].k, key) {
			if txn.ops[i].del {
				return nil, ErrKeyNotFound
			}
			return &Item{txn.ops[i].k, txn.ops[i].v}, nil
		}
	}
	txn.db.lock()
	defer txn.db.unlock()
	if i := txn.db.find(key); i >= 0 {
		return &Item{txn.db.kvs[i].k, txn.db.kvs[i].v}, nil
	}
	return nil, ErrKeyNotFound
}

func (txn *Txn) Set(key, val []byte) error {
	if !txn.update {
		return modelErr("No sets or deletes are allowed in a read-only transaction")
	}
	// as documented: "The current transaction keeps a reference to the key and val byte slice arguments.
	// Users must not modify key and val until the end of the transaction."  No copy is taken.
	txn.ops = append(txn.ops, op{k: key, v: val})
	return nil
}

func (txn *Txn) Delete(key []byte) error {
	if !txn.update {
		return modelErr("No sets or deletes are allowed in a read-only transaction")
	}
	txn.ops = append(txn.ops, op{del: true, k: key}) // keeps a reference to key (documented)
	return nil
}

type IteratorOptions struct {
	PrefetchValues bool
	PrefetchSize   int
	Reverse        bool
	AllVersions    bool
	Prefix         []byte
}

var DefaultIteratorOptions = IteratorOptions{PrefetchValues: true, PrefetchSize: 100}

type Iterator struct {
	snap []entry
	pos  int
	buf  []byte // key buffer reused from item to item
}

// NewIterator iterates over a snapshot taken now, in ascending key order.
func (txn *Txn) NewIterator(opt IteratorOptions) *Iterator {
	return &Iterator{snap: txn.db.sorted(), pos: 0}
}

func (it *Iterator) Close()  {}
func (it *Iterator) Rewind() { it.pos = 0 }

// Seek positions at the first key >= the given key.
func (it *Iterator) Seek(key []byte) {
	it.pos = len(it.snap)
	for i := range it.snap {
		if bytes.Compare(it.snap[i].k, key) >= 0 {
			it.pos = i
			break
		}
	}
}
func (it *Iterator) Valid() bool { return it.pos < len(it.snap) }
func (it *Iterator) ValidForPrefix(prefix []byte) bool {
	return it.pos < len(it.snap) && bytes.HasPrefix(it.snap[it.pos].k, prefix)
}
func (it *Iterator) Next()       { it.pos++ }

// Item: as documented, "Key is only valid as long as item is valid" - the iterator reuses one key buffer, so a key
// slice kept across Next() changes under its holder (the real library recycles items the same way); KeyCopy is the
// way to keep a key.
func (it *Iterator) Item() *Item {
	it.buf = append(it.buf[:0], it.snap[it.pos].k...)
	return &Item{it.buf, it.snap[it.pos].v}
}

type WriteBatch struct {
	db  *DB
	ops []op
}

func (db *DB) NewWriteBatch() *WriteBatch { return &WriteBatch{db: db} }
// Set / Delete are "equivalent of Txn.Set / Txn.Delete": the batch keeps references to the slices until Flush.
func (wb *WriteBatch) Set(k, v []byte) error {
	wb.ops = append(wb.ops, op{k: k, v: v})
	return nil
}
func (wb *WriteBatch) Delete(k []byte) error {
	wb.ops = append(wb.ops, op{del: true, k: k})
	return nil
}
func (wb *WriteBatch) Flush() error {
	wb.db.commit(wb.ops)
	wb.ops = nil
	return nil
}
func (wb *WriteBatch) Cancel() { wb.ops = nil }
