//go:build verif

package labels

import (
	"github.com/janelia-flyem/dvid/dvid"
	"github.com/janelia-flyem/dvid/zzverif/vh"
)

// VerifC20_BlockParse: no byte string makes Block.UnmarshalBinary panic.  Param 0: input length.
func VerifC20_BlockParse() {
	n := vh.Param(0)
	data := vh.Bytes("block", n)
	var b Block
	err := b.UnmarshalBinary(data)
	if err == nil {
		vh.Assert(len(b.Labels) >= 1, "an accepted block has at least one label")
		vh.Reach("accepted")
	}
	vh.Reach("end")
}

// VerifC20_BlockViews: every view of a block that UnmarshalBinary accepted returns without panicking, whatever the
// index lists and packed values contain.  Params: input length, which view (0 Value, 1 GetPointLabels,
// 2 CalcNumLabels, 3 MergeLabels, 4 ReplaceLabel, 5 MakeLabelVolume).
func VerifC20_BlockViews() {
	n, view := vh.Param(0), vh.Param(1)
	data := vh.Bytes("block", n)
	// geometry of the smallest legal block so that the loops are bounded (larger declared geometries are covered by BlockParse)
	vh.Assume(data[0] == 2 && data[1] == 0 && data[2] == 0 && data[3] == 0 && data[4] == 2 && data[5] == 0 && data[6] == 0 && data[7] == 0 && data[8] == 2 && data[9] == 0 && data[10] == 0 && data[11] == 0)
	var b Block
	if b.UnmarshalBinary(data) != nil {
		return
	}
	vh.Reach("accepted")
	pt := dvid.Point3d{int32(vh.U8("x")), int32(vh.U8("y")), int32(vh.U8("z"))}
	switch view {
	case 0:
		b.Value(pt)
	case 1:
		b.GetPointLabels([]dvid.Point3d{pt})
	case 2:
		b.CalcNumLabels(nil)
	case 3:
		b.MergeLabels(MergeOp{Target: vh.U64("target"), Merged: Set{vh.U64("merged"): struct{}{}}})
	case 4:
		b.ReplaceLabel(vh.U64("target"), vh.U64("newlabel"))
	case 5:
		b.MakeLabelVolume()
	}
	vh.Reach("end")
}
