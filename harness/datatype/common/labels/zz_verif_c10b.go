//go:build verif

package labels

import (
	"github.com/janelia-flyem/dvid/dvid"
	"github.com/janelia-flyem/dvid/zzverif/vh"
)

// vRuns: concrete run sets (block-local coordinates) by code.  Code 0: runs inside sub-block 0 and across the
// sub-block boundary in x; 1: no run at all (the block only holds remaining voxels); 2: runs that only cover
// voxels of sub-blocks 1 and 3; 3: one full row plus single voxels.
func vRuns(code int) [][4]int32 {
	switch code % 4 {
	case 0:
		return [][4]int32{{0, 0, 0, 5}, {6, 3, 2, 6}, {2, 9, 9, 3}}
	case 1:
		return nil
	case 2:
		return [][4]int32{{8, 0, 0, 8}, {10, 12, 4, 4}}
	}
	return [][4]int32{{0, 5, 5, 16}, {15, 15, 15, 1}, {0, 0, 8, 1}}
}

// VerifC10_Split: the three block-level split operations performed on the compressed form - Split (by sparse volume,
// per body), SplitSupervoxel (one supervoxel) and SplitSupervoxels (several supervoxels at once) - give, voxel for
// voxel, the result of the operation on the uncompressed array, and the kept / split voxel counts they report are
// the true counts.  The block has k symbolic labels in a concrete layout; the run set is concrete (4 codes incl. no
// run in this block); target / supervoxel / split / remain labels are symbolic.
// Params: k, layout variant, run code, operation (0 Split, 1 SplitSupervoxel, 2 SplitSupervoxels).
func VerifC10_Split() {
	k, variant, rc, mode := vh.Param(0), vh.Param(1), vh.Param(2), vh.Param(3)
	ls := vLabels(k)
	n := vBS * vBS * vBS
	sel := make([]int, n)
	vol := make([]byte, n*8)
	for z := 0; z < vBS; z++ {
		for y := 0; y < vBS; y++ {
			for x := 0; x < vBS; x++ {
				sb := (z/8)*4 + (y/8)*2 + x/8
				in := (z%8)*64 + (y%8)*8 + x%8
				i := z*vBS*vBS + y*vBS + x
				sel[i] = vPattern(variant, k, sb, in)
				vPut(vol, i, ls[sel[i]])
			}
		}
	}
	blk, err := MakeBlock(vol, dvid.Point3d{vBS, vBS, vBS})
	vh.Assert(err == nil && blk != nil, "MakeBlock accepts a legal volume")
	bc := dvid.ChunkPoint3d{2, -1, 3}
	pb := PositionedBlock{*blk, bc.ToIZYXString()}
	off := dvid.Point3d{32, -16, 48}
	under := make([]bool, n)
	var rles dvid.RLEs
	for _, r := range vRuns(rc) {
		rles = append(rles, dvid.NewRLE(dvid.Point3d{r[0] + off[0], r[1] + off[1], r[2] + off[2]}, r[3]))
		for x := int32(0); x < r[3]; x++ {
			under[int(r[2])*vBS*vBS+int(r[1])*vBS+int(r[0]+x)] = true
		}
	}
	// per label slot: how many voxels lie under / outside the runs (concrete)
	nUnder, nOut := make([]uint64, k), make([]uint64, k)
	for i := 0; i < n; i++ {
		if under[i] {
			nUnder[sel[i]]++
		} else {
			nOut[sel[i]]++
		}
	}
	probes := []int{0, 5, 4, 2*256 + 3*16 + 6, 2*256 + 3*16 + 12, 9*256 + 9*16 + 3, 8, 4*256 + 12*16 + 11, 5*256 + 5*16 + 9, n - 1, 8 * 256, 1000, 3000}
	switch mode {
	case 0:
		target, newLabel := vh.U64("target"), vh.U64("newlabel")
		for _, l := range ls {
			vh.Assume(newLabel != l)
		}
		vh.Assume(newLabel != target)
		out, kept, split, err := pb.Split(SplitOp{Target: target, NewLabel: newLabel, RLEs: rles})
		vh.Assert(err == nil, "Split succeeds")
		var wantKept, wantSplit uint64
		hit := -1
		for j := range ls {
			if ls[j] == target {
				hit = j
			}
		}
		if hit >= 0 {
			wantKept, wantSplit = nOut[hit], nUnder[hit]
		}
		vh.Assert(kept == wantKept && split == wantSplit, "Split reports the true kept and split voxel counts")
		if hit < 0 {
			vh.Assert(out == nil, "a block without the target label is left alone")
			vh.Reach("absent")
			return
		}
		vh.Assert(out != nil, "split block returned")
		for _, i := range probes {
			want := ls[sel[i]]
			if sel[i] == hit && under[i] {
				want = newLabel
			}
			vh.Assert(out.Value(dvid.Point3d{int32(i % vBS), int32(i / vBS % vBS), int32(i / (vBS * vBS))}) == want, "Split = voxel-wise split of the uncompressed array")
		}
	case 1:
		sv, sSplit, sRemain := vh.U64("supervoxel"), vh.U64("splitlabel"), vh.U64("remainlabel")
		for _, l := range ls {
			vh.Assume(sSplit != l && sRemain != l)
		}
		vh.Assume(sSplit != sv && sRemain != sv && sSplit != sRemain)
		brles := dvid.BlockRLEs{}
		if len(rles) > 0 {
			brles[pb.BCoord] = rles
		}
		out, kept, split, err := pb.SplitSupervoxel(SplitSupervoxelOp{Supervoxel: sv, SplitSupervoxel: sSplit, RemainSupervoxel: sRemain, Split: brles})
		vh.Assert(err == nil && out != nil, "SplitSupervoxel succeeds")
		hit := -1
		for j := range ls {
			if ls[j] == sv {
				hit = j
			}
		}
		var wantKept, wantSplit uint64
		if hit >= 0 {
			wantKept, wantSplit = nOut[hit], nUnder[hit]
		}
		vh.Assert(kept == wantKept && split == wantSplit, "SplitSupervoxel reports the true kept and split voxel counts")
		for _, i := range probes {
			want := ls[sel[i]]
			if sel[i] == hit {
				want = sRemain
				if under[i] {
					want = sSplit
				}
			}
			vh.Assert(out.Value(dvid.Point3d{int32(i % vBS), int32(i / vBS % vBS), int32(i / (vBS * vBS))}) == want, "SplitSupervoxel = voxel-wise split of the uncompressed array")
		}
	default:
		svA, svB := vh.U64("supervoxelA"), vh.U64("supervoxelB")
		sp := []uint64{vh.U64("splitA"), vh.U64("remainA"), vh.U64("splitB"), vh.U64("remainB")}
		vh.Assume(svA != svB)
		for i, a := range sp {
			vh.Assume(a != svA && a != svB)
			for _, l := range ls {
				vh.Assume(a != l)
			}
			for j := 0; j < i; j++ {
				vh.Assume(a != sp[j])
			}
		}
		out, err := pb.SplitSupervoxels(rles, map[uint64]SVSplit{svA: {Split: sp[0], Remain: sp[1]}, svB: {Split: sp[2], Remain: sp[3]}})
		vh.Assert(err == nil && out != nil, "SplitSupervoxels succeeds")
		hitA, hitB := -1, -1
		for j := range ls {
			if ls[j] == svA {
				hitA = j
			} else if ls[j] == svB {
				hitB = j
			}
		}
		for _, i := range probes {
			want := ls[sel[i]]
			if sel[i] == hitA {
				want = sp[1]
				if under[i] {
					want = sp[0]
				}
			} else if sel[i] == hitB {
				want = sp[3]
				if under[i] {
					want = sp[2]
				}
			}
			vh.Assert(out.Value(dvid.Point3d{int32(i % vBS), int32(i / vBS % vBS), int32(i / (vBS * vBS))}) == want, "SplitSupervoxels = voxel-wise split of the uncompressed array")
		}
	}
	vh.Reach("end")
}
