//go:build verif

package labels

import (
	"github.com/janelia-flyem/dvid/dvid"
	"github.com/janelia-flyem/dvid/zzverif/vh"
)

func vPoint(sb int) (x, y, z int32) {
	x, y, z = int32(vh.U8("x")), int32(vh.U8("y")), int32(vh.U8("z"))
	vh.Assume(x < 8 && y < 8 && z < 8)
	return x + int32(sb&1)*8, y + int32((sb>>1)&1)*8, z + int32(sb>>2)*8
}

// VerifC10_Merge: MergeLabels on the compressed form = voxel-wise "labels in the merge set become the target".
// Params: labels in table, shape, sub-block of the probe point, size of merge set (1..2).
func VerifC10_Merge() {
	numLabels, shape, sb, nm := vh.Param(0), vh.Param(1), vh.Param(2), vh.Param(3)
	b, p := vSymBlock(numLabels, shape)
	// table entries are distinct and non-zero (a block produced by the encoder / earlier merges keeps 0 only for deleted)
	for i := range p.labels {
		for j := 0; j < i; j++ {
			vh.Assume(p.labels[i] != p.labels[j])
		}
	}
	target := vh.U64("target")
	merged := make(Set, nm)
	var ms []uint64
	for i := 0; i < nm; i++ {
		m := vh.U64("merged")
		vh.Assume(m != target)
		for _, o := range ms {
			vh.Assume(m != o)
		}
		ms = append(ms, m)
		merged[m] = struct{}{}
	}
	x, y, z := vPoint(sb)
	vh.Assume(p.vValidAt(x, y, z))
	before := b.Value(dvid.Point3d{x, y, z})
	out, err := b.MergeLabels(MergeOp{Target: target, Merged: merged})
	vh.Assert(err == nil && out != nil, "MergeLabels succeeds on a valid block")
	want := before
	for _, m := range ms {
		if before == m {
			want = target
		}
	}
	vh.Assert(out.Value(dvid.Point3d{x, y, z}) == want, "merged block = voxel-wise merge of the original")
	vh.Assert(b.Value(dvid.Point3d{x, y, z}) == before, "MergeLabels leaves the original block unchanged")
	vh.Reach("end")
}

// VerifC10_Replace: ReplaceLabel / ReplaceLabels on the compressed form = voxel-wise replacement.
// Params: labels in table, shape, sub-block of the probe point, mode (0 ReplaceLabel, 1 ReplaceLabels with 2 entries incl. a chain).
func VerifC10_Replace() {
	numLabels, shape, sb, mode := vh.Param(0), vh.Param(1), vh.Param(2), vh.Param(3)
	b, p := vSymBlock(numLabels, shape)
	x, y, z := vPoint(sb)
	vh.Assume(p.vValidAt(x, y, z))
	before := b.Value(dvid.Point3d{x, y, z})
	if mode == 0 {
		target, repl := vh.U64("target"), vh.U64("newlabel")
		out, _, err := b.ReplaceLabel(target, repl)
		vh.Assert(err == nil && out != nil, "ReplaceLabel succeeds on a valid block")
		want := before
		if before == target {
			want = repl
		}
		vh.Assert(out.Value(dvid.Point3d{x, y, z}) == want, "ReplaceLabel = voxel-wise replacement")
	} else {
		a, a2, c, c2 := vh.U64("from1"), vh.U64("to1"), vh.U64("from2"), vh.U64("to2")
		vh.Assume(a != c)
		out, replaced, err := b.ReplaceLabels(map[uint64]uint64{a: a2, c: c2})
		vh.Assert(err == nil && out != nil, "ReplaceLabels succeeds on a valid block")
		want := before
		if before == a {
			want = a2 // applied once: a chain a->c, c->d does not cascade
		} else if before == c {
			want = c2
		}
		vh.Assert(out.Value(dvid.Point3d{x, y, z}) == want, "ReplaceLabels = voxel-wise single application of the mapping")
		if before == a || before == c {
			vh.Assert(replaced, "replaced is reported when a voxel's label is in the mapping")
		}
	}
	vh.Assert(b.Value(dvid.Point3d{x, y, z}) == before, "the original block is unchanged")
	vh.Reach("end")
}

// vSkeletonB: like vSkeleton but the k-label cycle sits in sub-block 2, after a two-label sub-block 0 that lacks
// labels ls[2:], so bit offsets must be tracked across a sub-block that does not contain the target.
func vSkeletonB(ls []uint64, w, start int) ([]byte, []int) {
	k := len(ls)
	vol := make([]byte, vBS*vBS*vBS*8)
	count := make([]int, k)
	sel := make([]int, vBS*vBS*vBS)
	for z := 0; z < vBS; z++ {
		for y := 0; y < vBS; y++ {
			for x := 0; x < vBS; x++ {
				sb := (z/8)*4 + (y/8)*2 + x/8
				in := (z%8)*64 + (y%8)*8 + x%8
				var j int
				switch sb {
				case 0:
					j = (in / 5) % 2
				case 1:
					j = 0
				case 2:
					j = in % k
				case 5:
					j = (in / 7) % k
				default:
					j = k - 1
				}
				sel[z*vBS*vBS+y*vBS+x] = j
			}
		}
	}
	for i := 0; i < w; i++ {
		in := start + i
		x, y, z := in%8, 8+(in/8)%8, in/64 // sub-block 2 = (x<8, y>=8, z<8)
		sel[z*vBS*vBS+y*vBS+x] = vh.Choice("sel", k)
	}
	for i, j := range sel {
		vPut(vol, i, ls[j])
		count[j]++
	}
	return vol, count
}

// VerifC10_Counts: voxel counts computed on the compressed form equal the true counts.
// Params: k labels, window length, window start, index of the label that is replaced / counted.
func VerifC10_Counts() {
	k, w, start, ti := vh.Param(0), vh.Param(1), vh.Param(2), vh.Param(3)
	ls := vLabels(k)
	for _, l := range ls {
		vh.Assume(l != 0)
	}
	vol, count := vSkeletonB(ls, w, start)
	size := dvid.Point3d{vBS, vBS, vBS}
	blk, err := MakeBlock(vol, size)
	vh.Assert(err == nil, "MakeBlock succeeds")
	fresh := vh.U64("newlabel")
	_, replaceSize, err := blk.ReplaceLabel(ls[ti], fresh)
	vh.Assert(err == nil, "ReplaceLabel succeeds")
	vh.Assert(replaceSize == uint64(count[ti]), "ReplaceLabel reports the true number of replaced voxels")
	delta := blk.CalcNumLabels(nil)
	for j := 0; j < k; j++ {
		vh.Assert(int(delta[ls[j]]) == count[j], "CalcNumLabels = true per-label voxel counts")
	}
	vh.Reach("end")
}
