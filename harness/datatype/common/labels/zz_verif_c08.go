//go:build verif

package labels

import (
	"github.com/janelia-flyem/dvid/datatype/common/proto"
	"github.com/janelia-flyem/dvid/dvid"
	"github.com/janelia-flyem/dvid/zzverif/vh"
)

type vIdx struct {
	idx    *Index
	coords []dvid.ChunkPoint3d
	keys   []uint64
	svs    []uint64   // distinct supervoxel ids
	counts [][]uint32 // [block][sv] (0 = absent)
}

// vIndex builds a label index with nb blocks at distinct symbolic coordinates and ns distinct supervoxels whose
// per-block voxel counts are symbolic (a zero count means the supervoxel is absent from that block).
func vIndex(nb, ns int) *vIdx {
	const lim = 1 << 20
	v := &vIdx{idx: new(Index)}
	v.idx.Label = vh.U64("body")
	v.idx.Blocks = make(map[uint64]*proto.SVCount)
	for i := 0; i < ns; i++ {
		sv := vh.U64("sv")
		for _, o := range v.svs {
			vh.Assume(sv != o)
		}
		v.svs = append(v.svs, sv)
	}
	for b := 0; b < nb; b++ {
		c := dvid.ChunkPoint3d{vh.I32("bx"), vh.I32("by"), vh.I32("bz")}
		vh.Assume(c[0] > -lim && c[0] < lim && c[1] > -lim && c[1] < lim && c[2] > -lim && c[2] < lim)
		for _, o := range v.coords {
			vh.Assume(c != o)
		}
		v.coords = append(v.coords, c)
		key := EncodeBlockIndex(c[0], c[1], c[2])
		v.keys = append(v.keys, key)
		svc := &proto.SVCount{Counts: make(map[uint64]uint32)}
		row := make([]uint32, ns)
		any := false
		for i := 0; i < ns; i++ {
			if vh.Choice("present", 2) == 1 {
				n := vh.U32("count")
				vh.Assume(n >= 1 && n <= 1<<24)
				svc.Counts[v.svs[i]] = n
				row[i] = n
				any = true
			}
		}
		vh.Assume(any) // indices never hold empty blocks
		v.counts = append(v.counts, row)
		v.idx.Blocks[key] = svc
	}
	return v
}

func (v *vIdx) total() uint64 {
	var t uint64
	for _, row := range v.counts {
		for _, n := range row {
			t += uint64(n)
		}
	}
	return t
}

// VerifC08_BlockIndex: packed 21-bit block index round trip over its documented range.
func VerifC08_BlockIndex() {
	const lim = 1 << 20
	x, y, z := vh.I32("x"), vh.I32("y"), vh.I32("z")
	vh.Assume(x > -lim && x < lim && y > -lim && y < lim && z > -lim && z < lim)
	k := EncodeBlockIndex(x, y, z)
	gx, gy, gz := DecodeBlockIndex(k)
	vh.Assert(gx == x && gy == y && gz == z, "DecodeBlockIndex(EncodeBlockIndex(c)) == c for |c| < 2^20")
	s := BlockIndexToIZYXString(k)
	vh.Assert(s == dvid.ChunkPoint3d{x, y, z}.ToIZYXString(), "BlockIndexToIZYXString names the same block")
	k2, err := IZYXStringToBlockIndex(s)
	vh.Assert(err == nil && k2 == k, "IZYXStringToBlockIndex inverts it")
	x2, y2, z2 := vh.I32("x2"), vh.I32("y2"), vh.I32("z2")
	vh.Assume(x2 > -lim && x2 < lim && y2 > -lim && y2 < lim && z2 > -lim && z2 < lim)
	vh.Assert((EncodeBlockIndex(x2, y2, z2) == k) == (x == x2 && y == y2 && z == z2), "distinct blocks get distinct packed indices")
	vh.Reach("end")
}

// VerifC08_Cleave: cleaving moves exactly the named supervoxels, conserves voxels, leaves no empty block.
// Params: blocks, supervoxels, size of cleave list.
func VerifC08_Cleave() {
	nb, ns, nc := vh.Param(0), vh.Param(1), vh.Param(2)
	v := vIndex(nb, ns)
	before := v.total()
	vh.Assert(v.idx.NumVoxels() == before, "NumVoxels = sum of counts")
	var toCleave []uint64
	inCleave := make([]bool, ns)
	for i := 0; i < nc; i++ {
		if vh.Bool("cleaveKnown") {
			j := vh.Choice("which", ns)
			toCleave = append(toCleave, v.svs[j])
			inCleave[j] = true
		} else {
			o := vh.U64("otherSV")
			for _, s := range v.svs {
				vh.Assume(o != s)
			}
			toCleave = append(toCleave, o)
		}
	}
	cleavedSize, remainSize, cidx := v.idx.Cleave(vh.U64("cleaveLabel"), toCleave, dvid.MutInfo{MutID: vh.U64("mutid")})
	vh.Assert(cleavedSize+remainSize == before, "no voxel is lost or duplicated by a cleave")
	vh.Assert(cidx.NumVoxels() == cleavedSize && v.idx.NumVoxels() == remainSize, "reported sizes equal the sizes of the two resulting indices")
	for j := 0; j < ns; j++ {
		var want uint64
		for b := 0; b < nb; b++ {
			want += uint64(v.counts[b][j])
		}
		if inCleave[j] {
			vh.Assert(cidx.GetSupervoxelCount(v.svs[j]) == want && v.idx.GetSupervoxelCount(v.svs[j]) == 0, "a cleaved supervoxel moves entirely to the new body")
		} else {
			vh.Assert(cidx.GetSupervoxelCount(v.svs[j]) == 0 && v.idx.GetSupervoxelCount(v.svs[j]) == want, "other supervoxels stay entirely in the old body")
		}
	}
	for _, svc := range v.idx.Blocks {
		vh.Assert(svc != nil && len(svc.Counts) > 0, "no empty block remains in the old body")
	}
	for _, svc := range cidx.Blocks {
		vh.Assert(svc != nil && len(svc.Counts) > 0, "no empty block in the new body")
	}
	vh.Reach("end")
}

// VerifC08_ModifyBlocks: applying per-(supervoxel, block) voxel deltas = per-entry addition; underflow is refused;
// other entries are untouched.  Params: blocks, supervoxels.
func VerifC08_ModifyBlocks() {
	nb, ns := vh.Param(0), vh.Param(1)
	v := vIndex(nb, ns)
	j := vh.Choice("sv", ns)
	b := vh.Choice("block", nb)
	delta := vh.I32("delta")
	vh.Assume(delta > -(1<<24) && delta < 1<<24 && delta != 0)
	// the supervoxel must belong to this body for the change to apply
	belongs := false
	for bb := 0; bb < nb; bb++ {
		if v.counts[bb][j] != 0 {
			belongs = true
		}
	}
	vh.Assume(belongs)
	sc := SupervoxelChanges{v.svs[j]: {v.coords[b].ToIZYXString(): delta}}
	err := v.idx.ModifyBlocks(v.idx.Label, sc)
	old := int64(v.counts[b][j])
	if old+int64(delta) < 0 {
		vh.Assert(err != nil, "subtracting more voxels than present is refused")
		vh.Reach("refused")
		return
	}
	vh.Assert(err == nil, "a consistent change is accepted")
	for bb := 0; bb < nb; bb++ {
		for jj := 0; jj < ns; jj++ {
			want := int64(v.counts[bb][jj])
			if bb == b && jj == j {
				want += int64(delta)
			}
			var got int64
			if svc, ok := v.idx.Blocks[v.keys[bb]]; ok && svc != nil {
				got = int64(svc.Counts[v.svs[jj]])
			}
			vh.Assert(got == want, "every (supervoxel, block) count = old count + its delta; all other entries unchanged")
		}
	}
	for _, svc := range v.idx.Blocks {
		vh.Assert(svc != nil && len(svc.Counts) > 0, "blocks without supervoxels are removed")
	}
	vh.Reach("end")
}

// VerifC08_FitToBounds: clipping an index keeps exactly the blocks inside the bounds, whatever the map order.
// Params: blocks, bitmask of bounds that are set (1 minx, 2 miny, 4 minz, 8 maxx, 16 maxy, 32 maxz).
func VerifC08_FitToBounds() {
	nb, mask := vh.Param(0), vh.Param(1)
	v := vIndex(nb, 1)
	var bnd dvid.OptionalBounds
	lo := [3]int32{vh.I32("minx"), vh.I32("miny"), vh.I32("minz")}
	hi := [3]int32{vh.I32("maxx"), vh.I32("maxy"), vh.I32("maxz")}
	if mask&1 != 0 {
		bnd.SetMinX(lo[0])
	}
	if mask&2 != 0 {
		bnd.SetMinY(lo[1])
	}
	if mask&4 != 0 {
		bnd.SetMinZ(lo[2])
	}
	if mask&8 != 0 {
		bnd.SetMaxX(hi[0])
	}
	if mask&16 != 0 {
		bnd.SetMaxY(hi[1])
	}
	if mask&32 != 0 {
		bnd.SetMaxZ(hi[2])
	}
	vh.MapOrderAll()
	err := v.idx.FitToBounds(&bnd)
	vh.MapOrderDefault()
	vh.Assert(err == nil, "FitToBounds succeeds")
	for b, c := range v.coords {
		inside := (mask&1 == 0 || c[0] >= lo[0]) && (mask&2 == 0 || c[1] >= lo[1]) && (mask&4 == 0 || c[2] >= lo[2]) &&
			(mask&8 == 0 || c[0] <= hi[0]) && (mask&16 == 0 || c[1] <= hi[1]) && (mask&32 == 0 || c[2] <= hi[2])
		_, kept := v.idx.Blocks[v.keys[b]]
		vh.Assert(kept == inside, "a block is kept iff it lies within the bounds")
	}
	vh.Reach("end")
}

// VerifC08_Add: merging body B into body A: every supervoxel count is the sum; nothing else changes.
func VerifC08_Add() {
	nb, ns := vh.Param(0), vh.Param(1)
	a := vIndex(nb, ns)
	// second index: one block (possibly the same block as one of a's) with one new supervoxel
	other := vh.U64("sv2")
	for _, s := range a.svs {
		vh.Assume(other != s)
	}
	n := vh.U32("count2")
	vh.Assume(n >= 1 && n <= 1<<24)
	var c dvid.ChunkPoint3d
	shared := vh.Choice("sharedBlock", nb+1)
	if shared < nb {
		c = a.coords[shared]
	} else {
		const lim = 1 << 20
		c = dvid.ChunkPoint3d{vh.I32("cx"), vh.I32("cy"), vh.I32("cz")}
		vh.Assume(c[0] > -lim && c[0] < lim && c[1] > -lim && c[1] < lim && c[2] > -lim && c[2] < lim)
		for _, o := range a.coords {
			vh.Assume(c != o)
		}
	}
	b := new(Index)
	b.Blocks = map[uint64]*proto.SVCount{EncodeBlockIndex(c[0], c[1], c[2]): {Counts: map[uint64]uint32{other: n}}}
	before := a.total()
	vh.Assert(a.idx.Add(b, dvid.MutInfo{MutID: vh.U64("mutid")}) == nil, "Add of disjoint supervoxels succeeds")
	vh.Assert(a.idx.NumVoxels() == before+uint64(n), "voxel count after merge = sum")
	vh.Assert(a.idx.GetSupervoxelCount(other) == uint64(n), "the merged supervoxel is present with its count")
	for j := range a.svs {
		var want uint64
		for bb := 0; bb < nb; bb++ {
			want += uint64(a.counts[bb][j])
		}
		vh.Assert(a.idx.GetSupervoxelCount(a.svs[j]) == want, "existing supervoxels keep their counts")
	}
	vh.Reach("end")
}
