//go:build verif

package labels

import (
	"github.com/janelia-flyem/dvid/dvid"
	"github.com/janelia-flyem/dvid/zzverif/vh"
)

// vVote: the documented down-sampling vote over 8 labels: most frequent non-zero label, ties to the smaller
// label, all zero gives zero.
func vVote(l [8]uint64) uint64 {
	var winner uint64
	best := 0
	for i := 0; i < 8; i++ {
		if l[i] == 0 {
			continue
		}
		c := 0
		for j := 0; j < 8; j++ {
			if l[j] == l[i] {
				c++
			}
		}
		if c > best || (c == best && l[i] < winner) {
			best, winner = c, l[i]
		}
	}
	return winner
}

// vPatterns: how the 8 voxels of a 2x2x2 cell draw from the symbolic labels (index into the label list).
var vPatterns = [][8]int{
	{0, 0, 0, 0, 0, 0, 0, 0},
	{0, 0, 0, 0, 1, 1, 1, 1},
	{0, 1, 0, 1, 1, 0, 0, 0},
	{0, 0, 0, 1, 1, 1, 2, 2},
	{0, 1, 2, 0, 1, 2, 0, 1},
	{0, 1, 2, 2, 1, 0, 3, 3},
	{3, 2, 1, 0, 0, 1, 2, 3},
	{0, 0, 1, 1, 2, 2, 2, 3},
}

// VerifC14_Vote: the 2x2x2 vote as computed by DownresLabels and downresArray, for every iteration order of the
// vote map and all label values (0 included, ties included).  Params: pattern of label repetition, 0 DownresLabels / 1 downresArray.
func VerifC14_Vote() {
	pat, which := vPatterns[vh.Param(0)], vh.Param(1)
	ls := make([]uint64, 4)
	for i := range ls {
		ls[i] = vh.U64("label")
	}
	var l [8]uint64
	hires := make([]byte, 64)
	for i := 0; i < 8; i++ {
		l[i] = ls[pat[i]]
		vPut(hires, i, l[i])
	}
	vh.MapOrderAll()
	var got uint64
	if which == 0 {
		lores, err := DownresLabels(hires, dvid.Point3d{2, 2, 2})
		vh.Assert(err == nil && len(lores) == 8, "DownresLabels accepts a 2x2x2 array")
		got = vGet(lores, 0)
	} else {
		lores := make([]byte, 64)
		downresArray(hires, lores, 0, 0, 0, dvid.Point3d{2, 2, 2})
		got = vGet(lores, 0)
	}
	vh.MapOrderDefault()
	vh.Assert(got == vVote(l), "down-sampled voxel = documented vote (most frequent non-zero, ties to the smaller label)")
	vh.Reach("end")
}

// vOctant builds octant i per code digit: 0 nil, 1 solid with symbolic label, 2 two labels split at x = 4.
func vOctant(code int, la, lb uint64) *Block {
	switch code {
	case 0:
		return nil
	case 1:
		return MakeSolidBlock(la, dvid.Point3d{vBS, vBS, vBS})
	}
	vol := make([]byte, vBS*vBS*vBS*8)
	for z := 0; z < vBS; z++ {
		for y := 0; y < vBS; y++ {
			for x := 0; x < vBS; x++ {
				l := la
				if x >= 5 || (y == 3 && z == 7) {
					l = lb
				}
				vPut(vol, z*vBS*vBS+y*vBS+x, l)
			}
		}
	}
	b, err := MakeBlock(vol, dvid.Point3d{vBS, vBS, vBS})
	vh.Assert(err == nil, "octant block builds")
	return b
}

// VerifC14_Downres: Block.Downres over eight octants, each nil / solid / mixed: every low-resolution voxel under a
// present octant is the vote of its eight children; voxels under a nil octant keep the receiver's previous value.
// Params: octant code (8 base-3 digits, octant 0 is the lowest digit), receiver (0 solid label, 1 mixed).
func VerifC14_Downres() {
	code, recv := vh.Param(0), vh.Param(1)
	var oct [8]*Block
	labels := vLabels(4)
	c := code
	for i := 0; i < 8; i++ {
		oct[i] = vOctant(c%3, labels[i%2], labels[2])
		c /= 3
	}
	var b *Block
	if recv == 0 {
		b = MakeSolidBlock(labels[3], dvid.Point3d{vBS, vBS, vBS})
	} else {
		b = vOctant(2, labels[3], labels[0])
	}
	prev := new(Block)
	*prev = *b
	prevVol, _ := prev.MakeLabelVolume()
	vh.Assert(b.Downres(oct) == nil, "Downres succeeds")
	out, _ := b.MakeLabelVolume()
	// probe low-res voxels: a few per octant
	probes := [][3]int{{0, 0, 0}, {2, 1, 3}, {7, 7, 7}, {1, 6, 3}}
	for o := 0; o < 8; o++ {
		ox, oy, oz := (o&1)*8, ((o>>1)&1)*8, (o>>2)*8
		for _, p := range probes {
			lx, ly, lz := ox+p[0], oy+p[1], oz+p[2]
			got := vGet(out, lz*vBS*vBS+ly*vBS+lx)
			if oct[o] == nil {
				vh.Assert(got == vGet(prevVol, lz*vBS*vBS+ly*vBS+lx), "voxels under an absent octant keep their previous value")
				continue
			}
			var kids [8]uint64
			for i := 0; i < 8; i++ {
				kids[i] = oct[o].Value(dvid.Point3d{int32(2*p[0] + i&1), int32(2*p[1] + (i>>1)&1), int32(2*p[2] + i>>2)})
			}
			vh.Assert(got == vVote(kids), "low-resolution voxel = vote over the 2x2x2 voxels beneath it")
		}
	}
	vh.Reach("end")
}
