//go:build verif

package labels

import (
	"encoding/binary"

	"github.com/janelia-flyem/dvid/dvid"
	"github.com/janelia-flyem/dvid/zzverif/vh"
)

// vSymBlock builds the serialised form of a valid 16^3 block (8 sub-blocks) directly:
// label table symbolic, per-sub-block label counts given by nsb (concrete shape), index lists symbolic
// (each below the table size), packed voxel values fully symbolic.  Returns the parsed block and the pieces.
type vParts struct {
	labels  []uint64
	nsb     [8]int
	indices []uint32
	values  []byte
}

func vShape(code int) [8]int {
	switch code {
	case 0:
		return [8]int{2, 1, 1, 1, 1, 1, 1, 1}
	case 1:
		return [8]int{1, 2, 0, 1, 3, 1, 1, 2}
	case 2:
		return [8]int{3, 0, 2, 1, 1, 1, 1, 1}
	case 3:
		return [8]int{2, 2, 1, 1, 1, 1, 1, 1}
	case 4:
		return [8]int{1, 1, 1, 1, 1, 1, 1, 5}
	case 6:
		return [8]int{2, 1, 0, 0, 0, 0, 0, 0}
	case 7:
		return [8]int{0, 3, 0, 0, 0, 0, 0, 0}
	case 8:
		return [8]int{1, 2, 0, 0, 0, 0, 0, 0}
	default:
		return [8]int{0, 2, 2, 0, 1, 1, 1, 1}
	}
}

func vBitsForInt(n int) int {
	b := 0
	for (1 << uint(b)) < n {
		b++
	}
	return b
}

func vSymBlock(numLabels, shape int) (*Block, *vParts) {
	p := &vParts{nsb: vShape(shape)}
	p.labels = make([]uint64, numLabels)
	for i := range p.labels {
		p.labels[i] = vh.U64("label")
	}
	nidx, nbytes := 0, 0
	for _, n := range p.nsb {
		nidx += n
		if n > 1 {
			nbytes += (512*vBitsForInt(n) + 7) / 8
		}
	}
	p.indices = make([]uint32, nidx)
	for i := range p.indices {
		p.indices[i] = vh.U32("sbindex")
		vh.Assume(p.indices[i] < uint32(numLabels))
	}
	p.values = vh.Bytes("sbvalues", nbytes)
	data := make([]byte, 16+8*numLabels+16+4*nidx+nbytes)
	binary.LittleEndian.PutUint32(data[0:4], 2)
	binary.LittleEndian.PutUint32(data[4:8], 2)
	binary.LittleEndian.PutUint32(data[8:12], 2)
	binary.LittleEndian.PutUint32(data[12:16], uint32(numLabels))
	pos := 16
	for _, l := range p.labels {
		binary.LittleEndian.PutUint64(data[pos:pos+8], l)
		pos += 8
	}
	for _, n := range p.nsb {
		binary.LittleEndian.PutUint16(data[pos:pos+2], uint16(n))
		pos += 2
	}
	for _, ix := range p.indices {
		binary.LittleEndian.PutUint32(data[pos:pos+4], ix)
		pos += 4
	}
	copy(data[pos:], p.values)
	b := new(Block)
	vh.Assert(b.UnmarshalBinary(data) == nil, "a well-formed serialisation parses")
	return b, p
}

// vRefLabel: reference decode of the label at (x,y,z) straight from the documented layout.
func (p *vParts) vRefLabel(x, y, z int32) uint64 {
	sb := int(z/8)*4 + int(y/8)*2 + int(x/8)
	idxPos, bitPos := 0, 0
	for s := 0; s < sb; s++ {
		idxPos += p.nsb[s]
		if p.nsb[s] > 1 {
			bitPos += (512*vBitsForInt(p.nsb[s]) + 7) / 8 * 8
		}
	}
	n := p.nsb[sb]
	if n == 0 {
		return 0
	}
	if n == 1 {
		return p.labels[p.indices[idxPos]]
	}
	bits := vBitsForInt(n)
	vox := int(z%8)*64 + int(y%8)*8 + int(x%8)
	v := vBitsAt(p.values, uint32(bitPos+vox*bits), uint32(bits))
	if int(v) >= n {
		return 0 // index beyond the sub-block's table: not a valid block (excluded by the caller)
	}
	return p.labels[p.indices[idxPos+int(v)]]
}

// vValidAt: the packed index at this voxel addresses an entry of its sub-block's table.
func (p *vParts) vValidAt(x, y, z int32) bool {
	sb := int(z/8)*4 + int(y/8)*2 + int(x/8)
	n := p.nsb[sb]
	if n <= 1 {
		return true
	}
	bitPos := 0
	for s := 0; s < sb; s++ {
		if p.nsb[s] > 1 {
			bitPos += (512*vBitsForInt(p.nsb[s]) + 7) / 8 * 8
		}
	}
	bits := vBitsForInt(n)
	vox := int(z%8)*64 + int(y%8)*8 + int(x%8)
	return int(vBitsAt(p.values, uint32(bitPos+vox*bits), uint32(bits))) < n
}

// VerifC09_Views: on any valid block (tables and all packed bytes symbolic), the label at a point computed by
// Value, GetPointLabels and MakeLabelVolume equals the documented layout's reference decode.
// Params: number of labels in the block table, sub-block shape code, sub-block holding the queried point.
func VerifC09_Views() {
	numLabels, shape, sb := vh.Param(0), vh.Param(1), vh.Param(2)
	b, p := vSymBlock(numLabels, shape)
	x, y, z := int32(vh.U8("x")), int32(vh.U8("y")), int32(vh.U8("z"))
	vh.Assume(x < 8 && y < 8 && z < 8)
	x, y, z = x+int32(sb&1)*8, y+int32((sb>>1)&1)*8, z+int32(sb>>2)*8
	vh.Assume(p.vValidAt(x, y, z))
	want := p.vRefLabel(x, y, z)
	vh.Assert(b.Value(dvid.Point3d{x, y, z}) == want, "Value(point) = reference decode")
	got := b.GetPointLabels([]dvid.Point3d{{x, y, z}})
	vh.Assert(len(got) == 1 && got[0] == want, "GetPointLabels = reference decode")
	vh.Assert(b.Value(dvid.Point3d{x - 16, y, z}) == 0 && b.Value(dvid.Point3d{x, y + 16, z}) == 0, "points outside the block read 0")
	vh.Reach("end")
}

