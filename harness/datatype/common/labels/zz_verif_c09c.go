//go:build verif

package labels

import (
	"bytes"
	"encoding/binary"

	"github.com/janelia-flyem/dvid/dvid"
	"github.com/janelia-flyem/dvid/zzverif/vh"
)

// vPattern: concrete voxel -> label-slot layouts of a 16^3 block with k >= 3 label slots.  Every layout has
// sub-blocks with one slot, two slots and k slots; the layouts differ in the ORDER in which all-{0,1},
// mixed and solid sub-blocks follow each other in the sub-block scan.
func vPattern(variant, k, sb, in int) int {
	order := [][]int{
		{0, 1, 2, 3, 4, 5, 6, 7},
		{2, 0, 3, 1, 5, 4, 7, 6},
		{4, 2, 0, 0, 2, 3, 1, 5},
	}[variant%3]
	switch order[sb] {
	case 0:
		return (in / 5) % 2 // slots 0 and 1 only
	case 1:
		return 0
	case 2:
		return in % k // all k slots
	case 3:
		return 1 + (in/3)%2 // slots 1 and 2
	case 4:
		return (in / 9) % 2 * 2 // slots 0 and 2
	case 5:
		return (in / 7) % k
	case 6:
		return 2
	}
	return k - 1
}

// VerifC09_BinaryBlocks: the binary-block sparse output computed on the compressed form (WriteBinaryBlocks ->
// WriteBinaryBlock) equals the documented stream computed from the uncompressed array, for a foreground set of two
// symbolic labels (which may coincide with 0, 1 or 2 of the block's k symbolic labels, in any combination).
// Params: k label slots (>= 3), layout variant.
func VerifC09_BinaryBlocks() {
	k, variant := vh.Param(0), vh.Param(1)
	ls := vLabels(k)
	sel := make([]int, vBS*vBS*vBS)
	vol := make([]byte, vBS*vBS*vBS*8)
	for z := 0; z < vBS; z++ {
		for y := 0; y < vBS; y++ {
			for x := 0; x < vBS; x++ {
				sb := (z/8)*4 + (y/8)*2 + x/8
				in := (z%8)*64 + (y%8)*8 + x%8
				j := vPattern(variant, k, sb, in)
				i := z*vBS*vBS + y*vBS + x
				sel[i] = j
				vPut(vol, i, ls[j])
			}
		}
	}
	blk, err := MakeBlock(vol, dvid.Point3d{vBS, vBS, vBS})
	vh.Assert(err == nil && blk != nil, "MakeBlock accepts a legal volume")
	f1, f2 := vh.U64("fg1"), vh.U64("fg2")
	fg := make([]bool, k)
	nfg := 0
	for j := range fg {
		if ls[j] == f1 {
			fg[j] = true
		} else if ls[j] == f2 {
			fg[j] = true
		}
		if fg[j] {
			nfg++
		}
	}
	var buf bytes.Buffer
	op := NewOutputOp(&buf)
	go WriteBinaryBlocks(f1, Set{f1: struct{}{}, f2: struct{}{}}, op, dvid.Bounds{})
	op.Process(&PositionedBlock{*blk, dvid.ChunkPoint3d{1, 2, 3}.ToIZYXString()})
	vh.Assert(op.Finish() == nil, "binary output succeeds")
	out := buf.Bytes()
	if nfg == 0 {
		vh.Assert(len(out) == 0, "a block without foreground voxels produces no output")
		vh.Reach("nofg")
		return
	}
	// reference stream from the uncompressed array
	var want []byte
	hdr := make([]byte, 33)
	binary.LittleEndian.PutUint32(hdr[0:4], 2)
	binary.LittleEndian.PutUint32(hdr[4:8], 2)
	binary.LittleEndian.PutUint32(hdr[8:12], 2)
	binary.LittleEndian.PutUint64(hdr[12:20], f1)
	binary.LittleEndian.PutUint32(hdr[20:24], 16)
	binary.LittleEndian.PutUint32(hdr[24:28], 32)
	binary.LittleEndian.PutUint32(hdr[28:32], 48)
	hdr[32] = 2 // k >= 3 slots all occur, at most 2 are foreground: the block is mixed
	want = append(want, hdr...)
	for sb := 0; sb < 8; sb++ {
		mask := make([]byte, 64)
		nset := 0
		for in := 0; in < 512; in++ {
			x, y, z := (sb&1)*8+in%8, ((sb>>1)&1)*8+(in/8)%8, (sb>>2)*8+in/64
			if fg[sel[z*vBS*vBS+y*vBS+x]] {
				mask[in/8] |= 1 << uint(in%8)
				nset++
			}
		}
		switch nset {
		case 0:
			want = append(want, 0)
		case 512:
			want = append(want, 1)
		default:
			want = append(want, 2)
			want = append(want, mask...)
		}
	}
	vh.Assert(len(out) == len(want), "binary-block stream has the documented length")
	for i := range want {
		vh.Assert(out[i] == want[i], "binary-block stream = the stream computed from the uncompressed array")
	}
	vh.Reach("end")
}
