//go:build verif

package labels

import (
	"encoding/binary"

	"github.com/janelia-flyem/dvid/dvid"
	"github.com/janelia-flyem/dvid/zzverif/vh"
)

// vBitsAt: reference - the w bits starting h bits into the big-endian bit string b.
func vBitsAt(b []byte, h, w uint32) uint16 {
	var v uint16
	for i := uint32(0); i < w; i++ {
		p := h + i
		bit := (b[p>>3] >> (7 - (p & 7))) & 1
		v = v<<1 | uint16(bit)
	}
	return v
}

// VerifC09_PackedValue: the packed-index reader equals "bits [h, h+w) of the big-endian bit string"
// for every width 1..9, every bit offset and all byte contents.
func VerifC09_PackedValue() {
	b := vh.Bytes("packed", 10)
	h, w := vh.U32("bithead"), vh.U32("bits")
	vh.Assume(w >= 1 && w <= 9 && h <= 80-9)
	got := getPackedValue(b, h, w)
	vh.Assert(got == vBitsAt(b, h, w), "getPackedValue = bits [h,h+w) of the big-endian bit string")
	vh.Reach("end")
}

// VerifC09_BitsFor: bits per index = ceil(log2(n)) (0 for n < 2), for all 16-bit n; index byte widths.
func VerifC09_BitsFor() {
	n := vh.U16("n")
	bits := bitsFor(n)
	if n < 2 {
		vh.Assert(bits == 0, "bitsFor(0|1) = 0")
	} else {
		vh.Assert(bits >= 1 && bits <= 16, "bitsFor in range")
		vh.Assert(uint32(n) <= uint32(1)<<bits && uint32(n) > uint32(1)<<(bits-1), "2^(bits-1) < n <= 2^bits")
	}
	m := vh.U32("m")
	ib := indexBytes(m)
	vh.Assert((ib == 1 && m <= 256) || (ib == 2 && m > 256 && m <= 65536) || (ib == 4 && m > 65536), "indexBytes")
	vh.Reach("end")
}

// vLabels returns k pairwise distinct symbolic labels.
func vLabels(k int) []uint64 {
	ls := make([]uint64, k)
	for i := range ls {
		ls[i] = vh.U64("label")
		for j := 0; j < i; j++ {
			vh.Assume(ls[i] != ls[j])
		}
	}
	return ls
}

const vBS = 16 // block edge used by the harnesses (the legal minimum)

// vDims: block dimensions by code (cubic minimum and the three non-cubic variants with one 24 edge).
func vDims(code int) (int, int, int) {
	switch code {
	case 1:
		return 24, 16, 16
	case 2:
		return 16, 24, 16
	case 3:
		return 16, 16, 24
	}
	return 16, 16, 16
}

func vPut(vol []byte, i int, label uint64) { binary.LittleEndian.PutUint64(vol[i*8:i*8+8], label) }
func vGet(vol []byte, i int) uint64        { return binary.LittleEndian.Uint64(vol[i*8 : i*8+8]) }

// vSkeleton fills a bx*by*bz label volume: sub-block 0 cycles through the first k labels, sub-block 1 is solid ls[0],
// sub-block 2 alternates ls[0]/ls[1] (when k >= 2), the rest is solid ls[k-1].  A window of w consecutive voxels
// (x-major order inside sub-block (0,0,0), starting at voxel index start of that sub-block) gets explored choices.
func vSkeleton(ls []uint64, w, start, bx, by, bz int) []byte {
	k := len(ls)
	vol := make([]byte, bx*by*bz*8)
	gx, gy := bx/8, by/8
	for z := 0; z < bz; z++ {
		for y := 0; y < by; y++ {
			for x := 0; x < bx; x++ {
				sb := (z/8)*gx*gy + (y/8)*gx + x/8
				in := (z%8)*64 + (y%8)*8 + x%8
				var l uint64
				switch sb {
				case 0:
					l = ls[in%k]
				case 1:
					l = ls[0]
				case 2:
					l = ls[(in/3)%2%k]
				default:
					l = ls[k-1]
				}
				vPut(vol, z*bx*by+y*bx+x, l)
			}
		}
	}
	for i := 0; i < w; i++ {
		in := start + i
		x, y, z := in%8, (in/8)%8, in/64
		sel := vh.Choice("sel", k)
		vPut(vol, z*bx*by+y*bx+x, ls[sel])
	}
	return vol
}

// VerifC09_RoundTrip: compress -> decompress returns the identical array; every view on the compressed form
// agrees with the array; (un)marshalling preserves the block.
// Params: k distinct labels in sub-block 0 (bit widths 0..9 via k), window length, window start voxel, block dims code.
func VerifC09_RoundTrip() {
	k, w, start := vh.Param(0), vh.Param(1), vh.Param(2)
	bx, by, bz := vDims(vh.Param(3))
	ls := vLabels(k)
	vol := vSkeleton(ls, w, start, bx, by, bz)
	orig := append([]byte{}, vol...)
	size := dvid.Point3d{int32(bx), int32(by), int32(bz)}
	blk, err := MakeBlock(vol, size)
	vh.Assert(err == nil && blk != nil, "MakeBlock accepts a legal volume")
	out, osize := blk.MakeLabelVolume()
	vh.Assert(osize == size && len(out) == len(orig), "decoded volume has the block's size")
	n := bx * by * bz
	for i := 0; i < n; i++ {
		vh.Assert(vGet(out, i) == vGet(orig, i), "decompress(compress(volume)) is the identical array")
	}
	// point views
	for i := 0; i < w+2; i++ {
		in := (start + i) % 512
		x, y, z := int32(in%8), int32((in/8)%8), int32(in/64)
		want := vGet(orig, int(z)*bx*by+int(y)*bx+int(x))
		vh.Assert(blk.Value(dvid.Point3d{x, y, z}) == want, "Value(point) equals the array at that point")
	}
	pts := []dvid.Point3d{{int32(start % 8), int32((start / 8) % 8), int32(start / 64)}, {9, 1, 2}, {3, 12, 1}, {int32(bx - 1), int32(by - 1), int32(bz - 1)}}
	got := blk.GetPointLabels(pts)
	for i, p := range pts {
		vh.Assert(got[i] == vGet(orig, int(p[2])*bx*by+int(p[1])*bx+int(p[0])), "GetPointLabels equals the array")
		vh.Assert(blk.Value(p) == got[i], "Value and GetPointLabels agree")
	}
	// serialisation
	data, _ := blk.MarshalBinary()
	var blk2 Block
	vh.Assert(blk2.UnmarshalBinary(data) == nil, "UnmarshalBinary accepts MarshalBinary output")
	vh.Assert(blk2.Size == blk.Size && len(blk2.Labels) == len(blk.Labels) && len(blk2.SBIndices) == len(blk.SBIndices) && len(blk2.SBValues) == len(blk.SBValues), "re-parsed block has the same tables")
	out2, _ := blk2.MakeLabelVolume()
	for i := 0; i < 512; i++ {
		vh.Assert(vGet(out2, i) == vGet(orig, i), "re-parsed block decodes to the same array")
	}
	vh.Reach("end")
}
