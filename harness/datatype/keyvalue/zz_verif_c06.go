//go:build verif

package keyvalue

import (
	"bytes"

	"github.com/janelia-flyem/dvid/zzverif/vh"
)

// VerifC06_UserKeys: datum keys built from user-supplied key strings: decodable, injective, and no accepted key's
// datum key is a prefix of another's (so the scan over "all versions of this datum" can never meet another datum).
// Params: lengths of the two user keys.
func VerifC06_UserKeys() {
	n1, n2 := vh.Param(0), vh.Param(1)
	k1, k2 := vh.Str("key1", n1), vh.Str("key2", n2)
	t1, err1 := NewTKey(k1)
	t2, err2 := NewTKey(k2)
	if err1 != nil || err2 != nil {
		vh.Reach("refused")
		return
	}
	d1, err := DecodeTKey(t1)
	vh.Assert(n1 == 0 || (err == nil && d1 == k1), "DecodeTKey(NewTKey(k)) == k")
	if k1 != k2 {
		vh.Assert(!bytes.Equal(t1, t2), "distinct user keys get distinct datum keys")
		vh.Assert(!bytes.HasPrefix(t1, t2) && !bytes.HasPrefix(t2, t1), "no datum key is a prefix of another datum key")
	}
	vh.Reach("end")
}
