//go:build verif

package imageblk

import (
	"github.com/janelia-flyem/dvid/datastore"
	"github.com/janelia-flyem/dvid/dvid"
	dvidbadger "github.com/janelia-flyem/dvid/storage/badger"
	"github.com/janelia-flyem/dvid/zzverif/vh"
)

// VerifC17_Extents: the advertised extents of a version cover every voxel written at that version or an ancestor.
// The real PostExtents / GetExtents over DVID's Badger engine code and the store model, over every DAG shape within
// the bound; writes are placed at nodes in an order a server allows (a node is written before its children exist),
// each growing the volume by an arbitrary box.  Params: DAG nodes, max parents, writes, axes mask (bit a set: the box's
// extent along axis a is symbolic; otherwise it is the single plane 0; 0 = all three axes).
func VerifC17_Extents() {
	n, maxPar, writes, axes := vh.Param(0), vh.Param(1), vh.Param(2), vh.Param(3)
	if axes == 0 {
		axes = 7
	}
	vids, anc := datastore.VerifChooseDAG(n, maxPar)
	db, _ := dvidbadger.VerifNewModelDB()
	d := &Data{Data: datastore.VerifNewData("img", dvid.InstanceID(7), true)}
	d.Properties.BlockSize = dvid.Point3d{vBlk, vBlk, vBlk}
	d.SetKVStore(db)

	type wr struct {
		node     int
		beg, end dvid.Point3d
	}
	var hist []wr
	for w := 0; w < writes; w++ {
		node := 1 + vh.Choice("writeNode", n)
		for _, h := range hist {
			// a version is written while it is open, i.e. before any of its descendants exists
			vh.Assume(!anc(node, h.node))
		}
		var beg, end dvid.Point3d
		for a := 0; a < 3; a++ {
			if axes&(1<<a) == 0 {
				continue
			}
			beg[a] = int32(vh.I8("beg"))
			end[a] = int32(vh.I8("end"))
			vh.Assume(beg[a] <= end[a])
		}
		ctx := datastore.NewVersionedCtx(d, vids[node])
		vh.Assert(d.PostExtents(ctx, beg, end) == nil, "PostExtents succeeds")
		hist = append(hist, wr{node, beg, end})
	}
	for v := 1; v <= n; v++ {
		ctx := datastore.NewVersionedCtx(d, vids[v])
		ext, err := d.GetExtents(ctx)
		vh.Assert(err == nil, "GetExtents succeeds")
		for _, h := range hist {
			if h.node != v && !anc(h.node, v) {
				continue
			}
			min, ok1 := ext.MinPoint.(dvid.Point3d)
			max, ok2 := ext.MaxPoint.(dvid.Point3d)
			vh.Assert(ok1 && ok2, "a written version advertises extents")
			for a := 0; a < 3; a++ {
				vh.Assert(min[a] <= h.beg[a] && max[a] >= h.end[a], "the advertised extents cover every voxel written at this version or an ancestor")
			}
		}
	}
	vh.Reach("end")
}
