//go:build verif

package imageblk

import (
	"github.com/janelia-flyem/dvid/dvid"
	"github.com/janelia-flyem/dvid/storage"
	"github.com/janelia-flyem/dvid/zzverif/vh"
)

const vBlk = 4 // block edge used by the harness (the transfer code is size-generic)

func vValues(bpv int) dvid.DataValues {
	switch bpv {
	case 2:
		return dvid.DataValues{{T: dvid.T_uint16, Label: "v"}}
	case 4:
		return dvid.DataValues{{T: dvid.T_uint32, Label: "v"}}
	case 8:
		return dvid.DataValues{{T: dvid.T_uint64, Label: "v"}}
	}
	return dvid.DataValues{{T: dvid.T_uint8, Label: "v"}}
}

// vGeom: request geometry by shape code: 0 Vol3d (sx,sy,sz), 1 XY, 2 XZ, 3 YZ slice (sx,sy) at a symbolic offset.
func vGeom(shape int, off dvid.Point3d, sx, sy, sz int32) (dvid.Geometry, [3]int32) {
	switch shape {
	case 1:
		g, err := dvid.NewOrthogSlice(dvid.XY, off, dvid.Point2d{sx, sy})
		vh.Assert(err == nil, "XY slice geometry")
		return g, [3]int32{sx, sy, 1}
	case 2:
		g, err := dvid.NewOrthogSlice(dvid.XZ, off, dvid.Point2d{sx, sy})
		vh.Assert(err == nil, "XZ slice geometry")
		return g, [3]int32{sx, 1, sy}
	case 3:
		g, err := dvid.NewOrthogSlice(dvid.YZ, off, dvid.Point2d{sx, sy})
		vh.Assert(err == nil, "YZ slice geometry")
		return g, [3]int32{1, sx, sy}
	}
	return dvid.NewSubvolume(off, dvid.Point3d{sx, sy, sz}), [3]int32{sx, sy, sz}
}

// VerifC17_Transfer: copying between one stored block and a request buffer (3-D subvolume or an orthogonal 2-D slice,
// any alignment, negative coordinates included): after readBlock every request voxel that lies in the block holds
// exactly the block's bytes for that voxel and every other request byte is untouched; writeBlock is the converse.
// Params: shape (0 Vol3d,1 XY,2 XZ,3 YZ), bytes per voxel, sx, sy, sz, direction (0 read, 1 write), block coordinate index.
func VerifC17_Transfer() {
	shape, bpv, dir := vh.Param(0), vh.Param(1), vh.Param(5)
	sx, sy, sz := int32(vh.Param(2)), int32(vh.Param(3)), int32(vh.Param(4))
	// block coordinate from a list that includes negative and zero coordinates; every alignment of the request box
	// relative to the block that still intersects it is explored (offsets are concrete per path, contents symbolic)
	coords := []dvid.ChunkPoint3d{{0, 0, 0}, {-1, 2, -3}, {5, -1, 0}, {-262144, 262143, -1}}
	bc := coords[vh.Param(6)%len(coords)]
	_, ext := vGeom(shape, dvid.Point3d{0, 0, 0}, sx, sy, sz)
	var off dvid.Point3d
	for d := 0; d < 3; d++ {
		span := int(ext[d]) - 1 + vBlk // number of offsets for which box and block intersect on this axis
		off[d] = bc[d]*vBlk - (ext[d] - 1) + int32(vh.Choice("align", span))
	}
	geom, _ := vGeom(shape, off, sx, sy, sz)
	nvox := int(ext[0] * ext[1] * ext[2])
	reqBytes := vh.Bytes("request", nvox*bpv)
	stride := ext[0] * int32(bpv)
	if shape == 3 {
		stride = ext[1] * int32(bpv)
	}
	v := NewVoxels(geom, vValues(bpv), reqBytes, stride)
	idx := dvid.IndexZYX(bc)
	blockBytes := vh.Bytes("block", vBlk*vBlk*vBlk*bpv)
	blk := &storage.TKeyValue{K: NewTKey(&idx), V: blockBytes}
	origReq := append([]byte{}, reqBytes...)
	origBlk := append([]byte{}, blockBytes...)
	bsize := dvid.Point3d{vBlk, vBlk, vBlk}
	if dir == 0 {
		vh.Assert(v.readBlock(blk, bsize) == nil, "readBlock succeeds")
	} else {
		vh.Assert(v.writeBlock(blk, bsize) == nil, "writeBlock succeeds")
	}
	// voxel-wise oracle over the request box
	for z := int32(0); z < ext[2]; z++ {
		for y := int32(0); y < ext[1]; y++ {
			for x := int32(0); x < ext[0]; x++ {
				gx, gy, gz := off[0]+x, off[1]+y, off[2]+z
				lx, ly, lz := gx-bc[0]*vBlk, gy-bc[1]*vBlk, gz-bc[2]*vBlk
				inBlock := lx >= 0 && lx < vBlk && ly >= 0 && ly < vBlk && lz >= 0 && lz < vBlk
				var ri int
				switch shape {
				case 3:
					ri = (int(z)*int(ext[1]) + int(y)) * bpv
				default:
					ri = ((int(z)*int(ext[1])+int(y))*int(ext[0]) + int(x)) * bpv
				}
				for k := 0; k < bpv; k++ {
					if inBlock {
						bi := ((int(lz)*vBlk+int(ly))*vBlk+int(lx))*bpv + k
						if dir == 0 {
							vh.Assert(reqBytes[ri+k] == origBlk[bi], "a request voxel inside the block reads exactly the stored bytes")
						} else {
							vh.Assert(blockBytes[bi] == origReq[ri+k], "a request voxel inside the block is stored exactly")
						}
					} else if dir == 0 {
						vh.Assert(reqBytes[ri+k] == origReq[ri+k], "request bytes outside the block are untouched")
					}
				}
			}
		}
	}
	if dir == 0 {
		for i := range blockBytes {
			vh.Assert(blockBytes[i] == origBlk[i], "reading does not modify the stored block")
		}
	} else {
		// block voxels outside the request keep their previous content
		for lz := int32(0); lz < vBlk; lz++ {
			for ly := int32(0); ly < vBlk; ly++ {
				for lx := int32(0); lx < vBlk; lx++ {
					gx, gy, gz := bc[0]*vBlk+lx, bc[1]*vBlk+ly, bc[2]*vBlk+lz
					inReq := gx >= off[0] && gx < off[0]+ext[0] && gy >= off[1] && gy < off[1]+ext[1] && gz >= off[2] && gz < off[2]+ext[2]
					if !inReq {
						bi := ((int(lz)*vBlk+int(ly))*vBlk + int(lx)) * bpv
						for k := 0; k < bpv; k++ {
							vh.Assert(blockBytes[bi+k] == origBlk[bi+k], "block voxels outside the request keep their content")
						}
					}
				}
			}
		}
	}
	vh.Reach("end")
}

// VerifC17_Iterator: the block spans visited for a request box are exactly the blocks that intersect it, for any
// (possibly negative) symbolic offset.  Params: sx, sy, sz.
func VerifC17_Iterator() {
	sx, sy, sz := int32(vh.Param(0)), int32(vh.Param(1)), int32(vh.Param(2))
	const lim = 1 << 20
	off := dvid.Point3d{vh.I32("ox"), vh.I32("oy"), vh.I32("oz")}
	vh.Assume(off[0] > -lim && off[0] < lim && off[1] > -lim && off[1] < lim && off[2] > -lim && off[2] < lim)
	v := NewVoxels(dvid.NewSubvolume(off, dvid.Point3d{sx, sy, sz}), vValues(1), nil, 0)
	it, err := v.NewIndexIterator(dvid.Point3d{vBlk, vBlk, vBlk})
	vh.Assert(err == nil, "iterator constructible")
	// a symbolic probe block: visited iff it intersects the box
	probe := dvid.ChunkPoint3d{vh.I32("px"), vh.I32("py"), vh.I32("pz")}
	vh.Assume(probe[0] > -lim && probe[0] < lim && probe[1] > -lim && probe[1] < lim && probe[2] > -lim && probe[2] < lim)
	visits := 0
	steps := 0
	for ; it.Valid(); it.NextSpan() {
		steps++
		vh.Assert(steps <= 64, "iteration terminates within the number of block rows of the box")
		b, e, err := it.IndexSpan()
		vh.Assert(err == nil, "span available")
		bz, ez := b.(*dvid.IndexZYX), e.(*dvid.IndexZYX)
		if probe[1] == bz[1] && probe[2] == bz[2] && probe[0] >= bz[0] && probe[0] <= ez[0] {
			visits++
		}
	}
	intersects := true
	ext := [3]int32{sx, sy, sz}
	for d := 0; d < 3; d++ {
		bmin, bmax := probe[d]*vBlk, probe[d]*vBlk+vBlk-1
		if bmax < off[d] || bmin > off[d]+ext[d]-1 {
			intersects = false
		}
	}
	if intersects {
		vh.Assert(visits == 1, "every block intersecting the request is visited exactly once")
	} else {
		vh.Assert(visits == 0, "no block outside the request is visited")
	}
	vh.Reach("end")
}
