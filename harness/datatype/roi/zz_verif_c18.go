//go:build verif

package roi

import (
	"encoding/json"

	"github.com/janelia-flyem/dvid/datastore"
	"github.com/janelia-flyem/dvid/dvid"
	dvidbadger "github.com/janelia-flyem/dvid/storage/badger"
	"github.com/janelia-flyem/dvid/zzverif/vh"
	"github.com/janelia-flyem/dvid/zzverif/vstore"
)

const vROIBlock = 8

func vFloorDiv(a, b int32) int32 {
	q := a / b
	if a%b != 0 && (a < 0) != (b < 0) {
		q--
	}
	return q
}

// VerifC18_ROIQueries: an ROI stored as block spans (the real PutSpans over DVID's Badger engine code and the store
// model) answers listing, point-membership and mask queries consistently with its spans: GetSpans returns exactly the
// stored spans in (z, y, x0) order; a voxel is reported inside iff the block containing it lies in a span; the mask of
// a small subvolume marks exactly the voxels whose block lies in a span.  Spans and query positions are symbolic
// (signed block and voxel coordinates).
// Params: number of spans (1..2), query (0 listing, 1 point query of two voxels, 2 mask of a 3x1x1 subvolume).
func VerifC18_ROIQueries() {
	nSpans, query := vh.Param(0), vh.Param(1)
	uuid, v := datastore.VerifInstallRootRepo(vstore.New(), 1) // repo metadata goes to the plain model store
	db, _ := dvidbadger.VerifNewModelDB()
	d := &Data{Data: datastore.VerifNewData("roi", dvid.InstanceID(4), true)}
	d.Properties.BlockSize = dvid.Point3d{vROIBlock, vROIBlock, vROIBlock}
	d.SetKVStore(db)
	datastore.VerifAddData(uuid, d)
	ctx := datastore.NewVersionedCtx(d, v)

	var spans []dvid.Span
	for i := 0; i < nSpans; i++ {
		z, y, x0 := int32(vh.I8("z")), int32(vh.I8("y")), int32(vh.I8("x0"))
		ln := int32(vh.U8("len"))
		vh.Assume(ln < 4)
		sp := dvid.Span{z, y, x0, x0 + ln}
		for _, o := range spans { // non-overlapping spans, as a client posts them
			vh.Assume(o[0] != z || o[1] != y || sp[3] < o[2] || sp[2] > o[3])
		}
		spans = append(spans, sp)
	}
	vh.Assert(d.PutSpans(v, spans, true) == nil, "PutSpans succeeds")
	inROI := func(p dvid.Point3d) bool {
		bx, by, bz := vFloorDiv(p[0], vROIBlock), vFloorDiv(p[1], vROIBlock), vFloorDiv(p[2], vROIBlock)
		for _, s := range spans {
			if s[0] == bz && s[1] == by && s[2] <= bx && bx <= s[3] {
				return true
			}
		}
		return false
	}

	switch query {
	case 0:
		got, err := d.GetSpans(v)
		vh.Assert(err == nil && len(got) == len(spans), "the listing returns as many spans as were stored")
		for i, g := range got {
			n := 0
			for _, s := range spans {
				if s == g {
					n++
				}
			}
			vh.Assert(n == 1, "every listed span is one of the stored spans")
			if i > 0 {
				p := got[i-1]
				vh.Assert(p[0] < g[0] || (p[0] == g[0] && (p[1] < g[1] || (p[1] == g[1] && p[2] < g[2]))), "spans are listed in (z, y, x0) order")
			}
		}
	case 1:
		pts := []dvid.Point3d{{int32(vh.I16("px")), int32(vh.I16("py")), int32(vh.I16("pz"))}, {int32(vh.I16("px")), int32(vh.I16("py")), int32(vh.I16("pz"))}}
		for _, p := range pts {
			for a := 0; a < 3; a++ {
				vh.Assume(p[a] >= -1200 && p[a] <= 1200)
			}
		}
		js, err := json.Marshal(pts)
		vh.Assert(err == nil, "marshal")
		out, err := d.PointQuery(ctx, js)
		vh.Assert(err == nil, "PointQuery succeeds")
		var incl []bool
		vh.Assert(json.Unmarshal(out, &incl) == nil && len(incl) == 2, "two answers")
		vh.Assert(incl[0] == inROI(pts[0]) && incl[1] == inROI(pts[1]), "a voxel is reported inside exactly when its block lies in a span")
	default:
		off := dvid.Point3d{int32(vh.I16("ox")), int32(vh.I16("oy")), int32(vh.I16("oz"))}
		for a := 0; a < 3; a++ {
			vh.Assume(off[a] >= -1200 && off[a] <= 1200)
		}
		sub := dvid.NewSubvolume(off, dvid.Point3d{3, 1, 1})
		mask, err := d.GetMask(ctx, sub)
		vh.Assert(err == nil && len(mask) == 3, "GetMask returns one byte per voxel")
		for i := int32(0); i < 3; i++ {
			want := byte(0)
			if inROI(dvid.Point3d{off[0] + i, off[1], off[2]}) {
				want = 1
			}
			vh.Assert(mask[i] == want, "the mask marks exactly the voxels whose block lies in a span")
		}
	}
	vh.Reach("end")
}
