//go:build verif

package roi

import (
	"github.com/janelia-flyem/dvid/datastore"
	"github.com/janelia-flyem/dvid/dvid"
	"github.com/janelia-flyem/dvid/zzverif/vh"
)

// VerifC03_Settings: an ROI instance's settings (identity, block size, z range) survive the metadata round trip of a
// restart through the real GobEncode / GobDecode chain.
func VerifC03_Settings() {
	base := datastore.VerifNewData(dvid.InstanceName(vh.Str("name", 2)), dvid.InstanceID(vh.U32("id")), vh.Bool("versioned"))
	d := &Data{Data: base}
	d.Properties.BlockSize = dvid.Point3d{vh.I32("bx"), vh.I32("by"), vh.I32("bz")}
	d.Properties.MinZ, d.Properties.MaxZ = vh.I32("minz"), vh.I32("maxz")
	ser, err := dvid.Serialize(d, dvid.Compression{}, dvid.NoChecksum)
	vh.Assert(err == nil, "the instance serialises")
	back := new(Data)
	vh.Assert(dvid.Deserialize(ser, back) == nil, "the instance deserialises")
	vh.Assert(back.DataName() == d.DataName() && back.InstanceID() == d.InstanceID() && back.Versioned() == d.Versioned(), "identity survives")
	vh.Assert(back.Properties.BlockSize == d.Properties.BlockSize && back.Properties.MinZ == d.Properties.MinZ && back.Properties.MaxZ == d.Properties.MaxZ, "block size and z range survive")
	vh.Reach("end")
}
