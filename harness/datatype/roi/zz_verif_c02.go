//go:build verif

package roi

import (
	"strings"

	"github.com/janelia-flyem/dvid/datastore"
	"github.com/janelia-flyem/dvid/zzverif/vh"
)

// VerifC02_Mutation: POST/PUT/DELETE (any letter case) are mutations except the documented read-only POST ptquery.
// Params: method length, keyword length.
func VerifC02_Mutation() {
	d := &Data{Data: datastore.VerifNewData("r", 4, true)}
	m, k := vh.Str("method", vh.Param(0)), vh.Str("keyword", vh.Param(1))
	for i := 0; i < len(m); i++ {
		vh.Assume(m[i] < 0x80)
	}
	l := strings.ToLower(m)
	want := (l == "post" || l == "put" || l == "delete") && !(k == "ptquery" && l == "post")
	vh.Assert(d.IsMutationRequest(m, k) == want, "POST/PUT/DELETE are mutations except the read-only POST ptquery")
	vh.Reach("end")
}
