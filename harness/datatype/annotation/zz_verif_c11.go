//go:build verif

package annotation

import (
	"bytes"
	"encoding/json"

	"github.com/janelia-flyem/dvid/datastore"
	"github.com/janelia-flyem/dvid/dvid"
	"github.com/janelia-flyem/dvid/zzverif/vh"
	"github.com/janelia-flyem/dvid/zzverif/vstore"
)

// VerifC11_ElementEdits: two annotation element requests processed concurrently (every interleaving of their store
// operations with at most k preemptions), both acknowledged: the per-block store and the tag index end in a state some
// sequential order of the two would have produced - no acknowledged element is lost.
// Params: preemption bound; request pair (0: post + post in one block, 1: post + delete in one block,
// 2: post + post in different blocks sharing a tag).
func VerifC11_ElementEdits() {
	k, pair := vh.Param(0), vh.Param(1)
	s := vstore.New()
	uuid, v := datastore.VerifInstallRootRepo(s, 1)
	d := &Data{Data: datastore.VerifNewData("ann", dvid.InstanceID(9), true)}
	d.SetKVStore(s)
	datastore.VerifAddData(uuid, d)
	ctx := datastore.NewVersionedCtx(d, v)
	tag := Tag("t")
	mk := func(x int32) []byte {
		js, err := json.Marshal(Elements{{ElementNR: ElementNR{Pos: dvid.Point3d{x, 1, 1}, Kind: ElementType(1 + vh.U8("kind")%4), Tags: Tags{tag}}}})
		vh.Assert(err == nil, "marshal")
		return js
	}
	pA, pB, pC := dvid.Point3d{3, 1, 1}, dvid.Point3d{5, 1, 1}, dvid.Point3d{70, 1, 1}
	jsA, jsB, jsC := mk(3), mk(5), mk(70)
	if pair == 1 {
		vh.Assert(d.StoreElements(ctx, bytes.NewReader(jsB), true) == nil, "element B stored beforehand")
	}
	var e1, e2 error
	vh.Schedule(k)
	go func() { e1 = d.StoreElements(ctx, bytes.NewReader(jsA), true) }()
	switch pair {
	case 0:
		go func() { e2 = d.StoreElements(ctx, bytes.NewReader(jsB), true) }()
	case 1:
		go func() { e2 = d.DeleteElement(ctx, pB, true) }()
	default:
		go func() { e2 = d.StoreElements(ctx, bytes.NewReader(jsC), true) }()
	}
	vh.Quiesce()
	vh.Assert(e1 == nil && e2 == nil, "both requests acknowledged")

	has := func(es Elements, p dvid.Point3d) bool {
		for _, e := range es {
			if e.Pos.Equals(p) {
				return true
			}
		}
		return false
	}
	hasNR := func(es ElementsNR, p dvid.Point3d) bool {
		for _, e := range es {
			if e.Pos.Equals(p) {
				return true
			}
		}
		return false
	}
	blockSize := d.blockSize()
	b0, err := getElements(ctx, NewBlockTKey(pA.Chunk(blockSize).(dvid.ChunkPoint3d)))
	vh.Assert(err == nil, "block read")
	b1, err := getElements(ctx, NewBlockTKey(pC.Chunk(blockSize).(dvid.ChunkPoint3d)))
	vh.Assert(err == nil, "block read")
	tk, _ := NewTagTKey(tag)
	te, err := getElementsNR(ctx, tk)
	vh.Assert(err == nil, "tag read")
	vh.Assert(has(b0, pA) && hasNR(te, pA), "the acknowledged post of A is in the block store and the tag index")
	switch pair {
	case 0:
		vh.Assert(has(b0, pB) && hasNR(te, pB), "the acknowledged post of B is in the block store and the tag index")
		vh.Assert(len(b0) == 2 && len(te) == 2, "exactly the two posted elements exist")
	case 1:
		vh.Assert(!has(b0, pB) && !hasNR(te, pB), "the acknowledged delete of B took effect in the block store and the tag index")
		vh.Assert(len(b0) == 1 && len(te) == 1, "exactly the posted element exists")
	default:
		vh.Assert(has(b1, pC) && hasNR(te, pC), "the acknowledged post of C is in the block store and the tag index")
		vh.Assert(len(b0) == 1 && len(b1) == 1 && len(te) == 2, "exactly the two posted elements exist")
	}
	vh.Reach("end")
}
