//go:build verif

package annotation

import (
	"bytes"
	"encoding/json"

	"github.com/janelia-flyem/dvid/datastore"
	"github.com/janelia-flyem/dvid/dvid"
	"github.com/janelia-flyem/dvid/zzverif/vh"
	"github.com/janelia-flyem/dvid/zzverif/vstore"
)

// reference model of the element set (what the API documents): one element per position; a post is an upsert by
// position; a delete removes the element and the references its listed partners hold to it; a move rewrites the
// position and the references its listed partners hold.
type vModel struct {
	es          Elements
	relsUnknown bool // a state with a one-sided reference was passed: reference bookkeeping is then not compared
}

func (m *vModel) find(p dvid.Point3d) int {
	for i := range m.es {
		if m.es[i].Pos.Equals(p) {
			return i
		}
	}
	return -1
}

func (m *vModel) symmetric() bool {
	for _, e := range m.es {
		for _, r := range e.Rels {
			j := m.find(r.To)
			if j < 0 {
				return false
			}
			back := false
			for _, r2 := range m.es[j].Rels {
				back = back || r2.To.Equals(e.Pos)
			}
			if !back {
				return false
			}
		}
	}
	return true
}

func vCopyElem(e Element) Element {
	c := e
	c.Tags = append(Tags{}, e.Tags...)
	c.Rels = append(Relationships{}, e.Rels...)
	return c
}

func vSameTags(a, b Tags) bool {
	if len(a) != len(b) {
		return false
	}
	for _, t := range a {
		if !vHasTag(b, t) {
			return false
		}
	}
	return true
}

func vSameRels(a, b Relationships) bool {
	if len(a) != len(b) {
		return false
	}
	for _, r := range a {
		n := 0
		for _, r2 := range b {
			if r2.Rel == r.Rel && r2.To.Equals(r.To) {
				n++
			}
		}
		if n == 0 {
			return false
		}
	}
	return true
}

// VerifC13_Store: the real StoreElements / DeleteElement / MoveElement over the model store (no synced label volume):
// after every short request sequence the per-block store and the per-tag index are views of the one element set the
// API documents, and references between elements that reference each other follow moves and deletions.
// Three element positions (symbolic x: same or different blocks, negative coordinates, block borders), two symbolic
// tags, symbolic kinds.  Params: number of requests; first request kind + 1 (0: any; splits the work); 1 = concrete
// positions (two in one block, one in the next) instead of symbolic x.
func VerifC13_Store() {
	nOps, firstOp, concretePts := vh.Param(0), vh.Param(1), vh.Param(2) == 1
	s := vstore.New()
	uuid, v := datastore.VerifInstallRootRepo(s, 1)
	d := &Data{Data: datastore.VerifNewData("ann", dvid.InstanceID(9), true)}
	d.SetKVStore(s)
	datastore.VerifAddData(uuid, d)
	ctx := datastore.NewVersionedCtx(d, v)

	var pts [3]dvid.Point3d
	for i := range pts {
		if concretePts {
			pts[i] = dvid.Point3d{[]int32{3, 60, 64}[i], 1, 1}
			continue
		}
		pts[i] = dvid.Point3d{vh.I32("x"), 1, 1}
		for j := 0; j < i; j++ {
			vh.Assume(pts[i][0] != pts[j][0])
		}
	}
	ta, tb := Tag(vh.Str("tagA", 1)), Tag(vh.Str("tagB", 1))
	vh.Assume(ta != tb)
	tagSets := []Tags{nil, {ta}, {tb}, {ta, tb}}
	kind := func() ElementType {
		k := ElementType(vh.U8("kind"))
		vh.Assume(k <= Note)
		return k
	}
	post := func(es Elements) error {
		js, err := json.Marshal(es)
		vh.Assert(err == nil, "marshal")
		return d.StoreElements(ctx, bytes.NewReader(js), true)
	}
	m := &vModel{}
	upsert := func(e Element) {
		if i := m.find(e.Pos); i >= 0 {
			m.es[i] = vCopyElem(e)
		} else {
			m.es = append(m.es, vCopyElem(e))
		}
	}
	for op := 0; op < nOps; op++ {
		kindOfOp := firstOp - 1
		if op > 0 || firstOp == 0 {
			kindOfOp = vh.Choice("op", 4)
		}
		switch kindOfOp {
		case 0: // post one element without references
			e := Element{ElementNR: ElementNR{Pos: pts[vh.Choice("at", 3)], Kind: kind(), Tags: tagSets[vh.Choice("tags", 4)]}}
			vh.Assert(post(Elements{e}) == nil, "post succeeds")
			upsert(e)
		case 1: // post two elements that reference each other
			pair := [][2]int{{0, 1}, {0, 2}, {1, 2}}[vh.Choice("pair", 3)]
			a := Element{ElementNR: ElementNR{Pos: pts[pair[0]], Kind: kind(), Tags: Tags{ta}}, Rels: Relationships{{Rel: PreSynTo, To: pts[pair[1]]}}}
			b := Element{ElementNR: ElementNR{Pos: pts[pair[1]], Kind: kind()}, Rels: Relationships{{Rel: PostSynTo, To: pts[pair[0]]}}}
			vh.Assert(post(Elements{a, b}) == nil, "post succeeds")
			upsert(a)
			upsert(b)
		case 2: // delete
			p := pts[vh.Choice("at", 3)]
			err := d.DeleteElement(ctx, p, true)
			i := m.find(p)
			vh.Assert((err == nil) == (i >= 0), "a delete succeeds exactly when an element is there")
			if i >= 0 {
				del := m.es[i]
				m.es = append(m.es[:i:i], m.es[i+1:]...)
				for _, r := range del.Rels {
					if j := m.find(r.To); j >= 0 {
						var keep Relationships
						for _, r2 := range m.es[j].Rels {
							if !r2.To.Equals(p) {
								keep = append(keep, r2)
							}
						}
						m.es[j].Rels = keep
					}
				}
			}
		default: // move onto a free position
			mv := [][2]int{{0, 1}, {0, 2}, {1, 0}, {1, 2}, {2, 0}, {2, 1}}[vh.Choice("move", 6)]
			from, to := pts[mv[0]], pts[mv[1]]
			if m.find(to) >= 0 {
				continue // moving onto an occupied position is not specified
			}
			err := d.MoveElement(ctx, from, to, true)
			i := m.find(from)
			vh.Assert((err == nil) == (i >= 0), "a move succeeds exactly when an element is there")
			if i >= 0 {
				for _, r := range m.es[i].Rels {
					if j := m.find(r.To); j >= 0 {
						for k := range m.es[j].Rels {
							if m.es[j].Rels[k].To.Equals(from) {
								m.es[j].Rels[k].To = to
							}
						}
					}
				}
				m.es[i].Pos = to
			}
		}
		if !m.symmetric() {
			m.relsUnknown = true
		}
	}

	// ---- views ----
	blockSize := d.blockSize()
	var all Elements
	for i, p := range pts {
		bc := p.Chunk(blockSize).(dvid.ChunkPoint3d)
		dup := false
		for j := 0; j < i; j++ {
			dup = dup || pts[j].Chunk(blockSize).(dvid.ChunkPoint3d).Equals(bc)
		}
		if dup {
			continue
		}
		be, err := getElements(ctx, NewBlockTKey(bc))
		vh.Assert(err == nil, "block read succeeds")
		for _, e := range be {
			vh.Assert(e.Pos.Chunk(blockSize).(dvid.ChunkPoint3d).Equals(bc), "an element is stored in the block that contains it")
		}
		all = append(all, be...)
	}
	vh.Assert(len(all) == len(m.es), "the block store holds exactly the elements of the set")
	for _, me := range m.es {
		n := 0
		for _, e := range all {
			if e.Pos.Equals(me.Pos) {
				n++
				vh.Assert(e.Kind == me.Kind && vSameTags(e.Tags, me.Tags), "a stored element has the kind and tags last posted")
				if !m.relsUnknown {
					vh.Assert(vSameRels(e.Rels, me.Rels), "references between elements that reference each other follow moves and deletions")
				}
			}
		}
		vh.Assert(n == 1, "every element of the set is stored exactly once")
	}
	for _, t := range []Tag{ta, tb} {
		tk, err := NewTagTKey(t)
		vh.Assert(err == nil, "tag key")
		te, err := getElementsNR(ctx, tk)
		vh.Assert(err == nil, "tag read succeeds")
		want := 0
		for _, me := range m.es {
			if !vHasTag(me.Tags, t) {
				continue
			}
			want++
			n := 0
			for _, e := range te {
				if e.Pos.Equals(me.Pos) {
					n++
					vh.Assert(e.Kind == me.Kind && vSameTags(e.Tags, me.Tags), "the tag index returns the element as stored")
				}
			}
			vh.Assert(n == 1, "the tag index returns every element that carries the tag, once")
		}
		vh.Assert(len(te) == want, "the tag index returns only elements that carry the tag")
	}
	vh.Reach("end")
}
