//go:build verif

package annotation

import (
	"bytes"
	"encoding/json"
	"io/ioutil"

	"github.com/janelia-flyem/dvid/datastore"
	"github.com/janelia-flyem/dvid/datatype/common/labels"
	"github.com/janelia-flyem/dvid/datatype/labelmap"
	"github.com/janelia-flyem/dvid/dvid"
	"github.com/janelia-flyem/dvid/zzverif/vh"
	"github.com/janelia-flyem/dvid/zzverif/vstore"
)

func vHalfBlock(lo, hi uint64) *labels.Block {
	vol := make([]byte, 16*16*16*8)
	for z := 0; z < 16; z++ {
		for y := 0; y < 16; y++ {
			for x := 0; x < 16; x++ {
				l := lo
				if x >= 8 {
					l = hi
				}
				i := (z*256 + y*16 + x) * 8
				for b := 0; b < 8; b++ {
					vol[i+b] = byte(l >> (8 * uint(b)))
				}
			}
		}
	}
	blk, err := labels.MakeBlock(vol, dvid.Point3d{16, 16, 16})
	vh.Assert(err == nil, "block builds")
	return blk
}

// VerifC13_SyncEvents: a body merge or cleave in the synced label volume (the real labelmap MergeLabels / CleaveLabel
// over the model store, mapping cache included) followed by the delivery of its sync event to the annotation
// instance (the real mergeLabels / cleaveLabels handlers), optionally followed by one more element request: the
// per-body index of every body involved returns exactly the elements sitting on that body's voxels as the label
// volume now reports them.
// Params: scenario (0 merge body 20 into 10, 1 cleave supervoxel 11 off body 10), request after the event
// (0 none, 1 post on the changed region, 2 delete there, 3 move across the boundary).
func VerifC13_SyncEvents() {
	scenario, after := vh.Param(0), vh.Param(1)
	s := vstore.New()
	uuid, v := datastore.VerifInstallRootRepo(s, 1)
	const lmUUID = dvid.UUID("11111111111111111111111111111111")
	lm := labelmap.VerifNewLabelmap(s, dvid.InstanceID(3), uuid, v, lmUUID)
	size := dvid.Point3d{16, 16, 16}
	d := &Data{Data: datastore.VerifNewData("ann", dvid.InstanceID(9), true)}
	d.SetKVStore(s)
	d.SetSync(dvid.UUIDSet{lmUUID: struct{}{}})
	datastore.VerifAddData(uuid, d)
	ctx := datastore.NewVersionedCtx(d, v)
	info := dvid.ModInfo{User: "u", App: "a", Time: "t"}
	kind := func() ElementType {
		k := ElementType(vh.U8("kind"))
		vh.Assume(k >= PostSyn && k <= Note)
		return k
	}
	post := func(p dvid.Point3d) {
		js, err := json.Marshal(Elements{{ElementNR: ElementNR{Pos: p, Kind: kind()}}})
		vh.Assert(err == nil, "marshal")
		vh.Assert(d.StoreElements(ctx, bytes.NewReader(js), true) == nil, "post succeeds")
	}
	has := func(body uint64, p dvid.Point3d) bool {
		es, err := getElementsNR(ctx, NewLabelTKey(body))
		vh.Assert(err == nil, "per-body index readable")
		n := 0
		for _, e := range es {
			if e.Pos.Equals(p) {
				n++
			}
		}
		vh.Assert(n <= 1, "an element appears at most once in a body's index")
		return n == 1
	}
	count := func(body uint64) int {
		es, _ := getElementsNR(ctx, NewLabelTKey(body))
		return len(es)
	}
	pA, pB, pC, pD := dvid.Point3d{3, 1, 1}, dvid.Point3d{10, 1, 1}, dvid.Point3d{12, 2, 2}, dvid.Point3d{20, 1, 1}

	if scenario == 0 {
		// block 0: supervoxel 10 (body 10); block 1: solid supervoxel 20 (body 20)
		labelmap.VerifPutBlock(lm, s, v, dvid.ChunkPoint3d{0, 0, 0}, labels.MakeSolidBlock(10, size))
		labelmap.VerifPutBlock(lm, s, v, dvid.ChunkPoint3d{1, 0, 0}, labels.MakeSolidBlock(20, size))
		labelmap.VerifPutIndex(lm, v, 10, dvid.ChunkPoint3d{0, 0, 0}, map[uint64]uint32{10: 4096})
		labelmap.VerifPutIndex(lm, v, 20, dvid.ChunkPoint3d{1, 0, 0}, map[uint64]uint32{20: 4096})
		post(pA)
		post(pD)
		vh.Assert(has(10, pA) && has(20, pD), "elements are indexed under their bodies before the merge")
		op := labels.MergeOp{Target: 10, Merged: labels.NewSet(20)}
		mutID, err := lm.MergeLabels(v, op, info)
		vh.Assert(err == nil, "merge acknowledged")
		op.MutID = mutID
		vh.Assert(d.mergeLabels(s, v, op) == nil, "merge event handled")
		pE := dvid.Point3d{21, 3, 3} // on the merged-in region
		switch after {
		case 1:
			post(pE)
		case 2:
			vh.Assert(d.DeleteElement(ctx, pD, true) == nil, "delete succeeds")
		case 3:
			vh.Assert(d.MoveElement(ctx, pA, pE, true) == nil, "move succeeds")
		}
		vh.Quiesce()
		vh.Assert(count(20) == 0, "the merged body no longer has elements of its own")
		switch after {
		case 0:
			vh.Assert(has(10, pA) && has(10, pD) && count(10) == 2, "the target body's index holds the elements of both bodies")
		case 1:
			vh.Assert(has(10, pA) && has(10, pD) && has(10, pE) && count(10) == 3, "an element posted on the merged-in region is indexed under the target body")
		case 2:
			vh.Assert(has(10, pA) && !has(10, pD) && count(10) == 1, "an element deleted on the merged-in region leaves the target body's index")
		case 3:
			vh.Assert(has(10, pE) && has(10, pD) && !has(10, pA) && count(10) == 2, "an element moved within the merged body is indexed at its new position")
		}
	} else {
		// block 0: x < 8 supervoxel 10, x >= 8 supervoxel 11, both in body 10
		labelmap.VerifPutBlock(lm, s, v, dvid.ChunkPoint3d{0, 0, 0}, vHalfBlock(10, 11))
		labelmap.VerifSetMapping(lm, v, 11, 10)
		labelmap.VerifPutIndex(lm, v, 10, dvid.ChunkPoint3d{0, 0, 0}, map[uint64]uint32{10: 2048, 11: 2048})
		post(pA)
		post(pB)
		vh.Assert(has(10, pA) && has(10, pB), "elements on both supervoxels are indexed under the body before the cleave")
		js, err := json.Marshal([]uint64{11})
		vh.Assert(err == nil, "marshal")
		cl, mutID, err := lm.CleaveLabel(v, 10, info, ioutil.NopCloser(bytes.NewReader(js)))
		vh.Assert(err == nil && cl != 0 && cl != 10, "cleave acknowledged with a new body")
		vh.Assert(d.cleaveLabels(s, v, labels.CleaveOp{MutID: mutID, Target: 10, CleavedLabel: cl, CleavedSupervoxels: []uint64{11}}) == nil, "cleave event handled")
		switch after {
		case 1:
			post(pC)
		case 2:
			vh.Assert(d.DeleteElement(ctx, pB, true) == nil, "delete succeeds")
		case 3:
			vh.Assert(d.MoveElement(ctx, pA, pC, true) == nil, "move succeeds")
		}
		vh.Quiesce()
		switch after {
		case 0:
			vh.Assert(has(10, pA) && count(10) == 1 && has(cl, pB) && count(cl) == 1, "each body's index holds exactly the elements on its supervoxels after the cleave")
		case 1:
			vh.Assert(has(10, pA) && count(10) == 1, "the remaining body keeps exactly its element")
			vh.Assert(has(cl, pB), "the cleaved body keeps the element moved to it by the cleave")
			vh.Assert(has(cl, pC) && count(cl) == 2, "an element posted on the cleaved supervoxel is indexed under the cleaved body")
		case 2:
			vh.Assert(has(10, pA) && count(10) == 1 && count(cl) == 0, "an element deleted on the cleaved supervoxel leaves the cleaved body's index")
		case 3:
			vh.Assert(count(10) == 0 && has(cl, pB) && has(cl, pC) && count(cl) == 2, "an element moved onto the cleaved supervoxel changes body")
		}
	}
	vh.Reach("end")
}
