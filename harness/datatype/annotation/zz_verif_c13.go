//go:build verif

package annotation

import (
	"github.com/janelia-flyem/dvid/dvid"
	"github.com/janelia-flyem/dvid/zzverif/vh"
)

func vPt(name string) dvid.Point3d {
	return dvid.Point3d{vh.I32(name + ".x"), vh.I32(name + ".y"), vh.I32(name + ".z")}
}

// vElems builds n elements at pairwise distinct symbolic positions, each with nrel relationships to symbolic points
// and ntag tags taken from the two symbolic tags.
func vElems(n, nrel, ntag int, ta, tb Tag) Elements {
	es := make(Elements, n)
	for i := 0; i < n; i++ {
		es[i].Pos = vPt("pos")
		for j := 0; j < i; j++ {
			vh.Assume(!es[i].Pos.Equals(es[j].Pos))
		}
		es[i].Kind = ElementType(vh.U8("kind"))
		for r := 0; r < nrel; r++ {
			es[i].Rels = append(es[i].Rels, Relationship{Rel: RelationType(vh.U8("rel")), To: vPt("relTo")})
		}
		for t := 0; t < ntag; t++ {
			if vh.Bool("tagIsA") {
				es[i].Tags = append(es[i].Tags, ta)
			} else {
				es[i].Tags = append(es[i].Tags, tb)
			}
		}
	}
	return es
}

func vCountAt(es Elements, p dvid.Point3d) int {
	n := 0
	for _, e := range es {
		if e.Pos.Equals(p) {
			n++
		}
	}
	return n
}

func vRefsTo(es Elements, p dvid.Point3d) int {
	n := 0
	for _, e := range es {
		for _, r := range e.Rels {
			if r.To.Equals(p) {
				n++
			}
		}
	}
	return n
}

func vCopyElems(es Elements) Elements {
	out := make(Elements, len(es))
	for i, e := range es {
		out[i] = *e.Copy()
	}
	return out
}

// VerifC13_Delete: deleting a point removes the element there and every reference to it, nothing else.
// Params: elements, relationships per element.
func VerifC13_Delete() {
	n, nrel := vh.Param(0), vh.Param(1)
	es := vElems(n, nrel, 0, "a", "b")
	orig := vCopyElems(es)
	pt := vPt("del")
	hadElem, hadRefs := vCountAt(orig, pt) > 0, vRefsTo(orig, pt) > 0
	deleted, changed := es.delete(pt)
	vh.Assert(vCountAt(es, pt) == 0, "no element remains at the deleted position")
	vh.Assert(vRefsTo(es, pt) == 0, "no relationship references the deleted position any more")
	vh.Assert((deleted != nil) == hadElem, "deleted element reported iff one existed")
	vh.Assert(changed == (hadElem || hadRefs), "changed iff something was removed")
	want := len(orig)
	if hadElem {
		want--
	}
	vh.Assert(len(es) == want, "exactly the element at the point is removed")
	// every other element survives with its other relationships intact
	for _, o := range orig {
		if o.Pos.Equals(pt) {
			continue
		}
		found := false
		for _, e := range es {
			if e.Pos.Equals(o.Pos) {
				found = true
				kept := 0
				for _, r := range o.Rels {
					if !r.To.Equals(pt) {
						kept++
					}
				}
				vh.Assert(e.Kind == o.Kind && len(e.Rels) == kept, "other elements keep their kind and their other relationships")
				k := 0
				for _, r := range o.Rels {
					if !r.To.Equals(pt) {
						vh.Assert(e.Rels[k] == r, "surviving relationships are unchanged and in order")
						k++
					}
				}
			}
		}
		vh.Assert(found, "elements at other positions survive")
	}
	vh.Reach("end")
}

// VerifC13_Move: moving an element rewrites its position and every reference to it.
func VerifC13_Move() {
	n, nrel := vh.Param(0), vh.Param(1)
	es := vElems(n, nrel, 0, "a", "b")
	orig := vCopyElems(es)
	from, to := vPt("from"), vPt("to")
	vh.Assume(!from.Equals(to))
	vh.Assume(vCountAt(orig, to) == 0) // moving onto an occupied position is refused upstream
	hadElem := vCountAt(orig, from) > 0
	refsFrom, refsTo := vRefsTo(orig, from), vRefsTo(orig, to)
	moved, changed := es.move(from, to, false)
	vh.Assert((moved != nil) == hadElem, "moved element reported iff one existed")
	vh.Assert(changed == (hadElem || refsFrom > 0), "changed iff something moved")
	vh.Assert(vCountAt(es, from) == 0, "nothing remains at the old position")
	vh.Assert(vCountAt(es, to) == vB(hadElem), "the element now sits at the new position")
	vh.Assert(vRefsTo(es, from) == 0 && vRefsTo(es, to) == refsFrom+refsTo, "every reference to the old position now points to the new one")
	vh.Assert(len(es) == len(orig), "no element is lost or created")
	vh.Reach("end")
}

func vB(b bool) int {
	if b {
		return 1
	}
	return 0
}

// VerifC13_Add: add is an upsert by position.
func VerifC13_Add() {
	n := vh.Param(0)
	es := vElems(n, 1, 0, "a", "b")
	orig := vCopyElems(es)
	ne := vElems(1, 1, 0, "a", "b")
	existed := vCountAt(orig, ne[0].Pos) > 0
	es.add(ne)
	vh.Assert(vCountAt(es, ne[0].Pos) == 1, "exactly one element at the posted position")
	vh.Assert(len(es) == len(orig)+1-vB(existed), "count grows only for a new position")
	for _, e := range es {
		if e.Pos.Equals(ne[0].Pos) {
			vh.Assert(e.Kind == ne[0].Kind && len(e.Rels) == 1 && e.Rels[0] == ne[0].Rels[0], "the element carries the posted properties")
		}
	}
	for _, o := range orig {
		if !o.Pos.Equals(ne[0].Pos) {
			vh.Assert(vCountAt(es, o.Pos) == 1, "other elements are kept")
		}
	}
	vh.Reach("end")
}

func vHasTag(ts Tags, t Tag) bool {
	for _, x := range ts {
		if x == t {
			return true
		}
	}
	return false
}

// VerifC13_TagDelta: per-tag index deltas computed when a block's elements are replaced: every element carrying a
// tag is (re)added under it; a position that had the tag and no longer has it is erased from it.  Must not panic.
// Params: new elements, current elements, tags per element.
func VerifC13_TagDelta() {
	nn, nc, ntag := vh.Param(0), vh.Param(1), vh.Param(2)
	ta, tb := Tag(vh.Str("tagA", 1)), Tag(vh.Str("tagB", 1))
	vh.Assume(ta != tb)
	newE := vElems(nn, 0, ntag, ta, tb)
	curE := vElems(nc, 0, ntag, ta, tb)
	delta := make(map[Tag]tagDeltaT)
	addTagDelta(newE, curE, delta)
	for _, t := range []Tag{ta, tb} {
		td := delta[t]
		for _, e := range newE {
			inAdd := 0
			for _, a := range td.add {
				if a.Pos.Equals(e.Pos) {
					inAdd++
				}
			}
			cnt := 0
			for _, x := range e.Tags {
				if x == t {
					cnt++
				}
			}
			vh.Assert(inAdd == cnt, "an element is added under exactly the tags it carries")
		}
		for _, c := range curE {
			var ne *Element
			for i := range newE {
				if newE[i].Pos.Equals(c.Pos) {
					ne = &newE[i]
				}
			}
			_, erased := td.erase[string(c.Pos.ToZYXBytes())]
			wantErase := ne != nil && vHasTag(c.Tags, t) && !vHasTag(ne.Tags, t)
			vh.Assert(erased == wantErase, "a position is erased from a tag iff it had the tag and the new element at that position lacks it")
		}
	}
	vh.Reach("end")
}

// VerifC13_TagChanges: tag set differences.
func VerifC13_TagChanges() {
	n1, n2 := vh.Param(0), vh.Param(1)
	mk := func(n int) Tags {
		ts := make(Tags, n)
		for i := range ts {
			ts[i] = Tag(vh.Str("tag", 1))
		}
		return ts
	}
	t1, t2 := mk(n1), mk(n2)
	removed, added := t1.Changes(t2)
	removed2 := t1.Removed(t2)
	probe := Tag(vh.Str("probe", 1))
	vh.Assert(vHasTag(removed, probe) == (vHasTag(t1, probe) && !vHasTag(t2, probe)), "removed = in old, not in new")
	vh.Assert(vHasTag(added, probe) == (vHasTag(t2, probe) && !vHasTag(t1, probe)), "added = in new, not in old")
	vh.Assert(vHasTag(removed2, probe) == vHasTag(removed, probe), "Removed agrees with Changes")
	vh.Reach("end")
}
