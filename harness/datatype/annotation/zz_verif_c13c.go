//go:build verif

package annotation

import (
	"bytes"
	"encoding/json"

	"github.com/janelia-flyem/dvid/datastore"
	"github.com/janelia-flyem/dvid/datatype/common/labels"
	"github.com/janelia-flyem/dvid/datatype/labelmap"
	"github.com/janelia-flyem/dvid/dvid"
	"github.com/janelia-flyem/dvid/zzverif/vh"
	"github.com/janelia-flyem/dvid/zzverif/vstore"
)

// VerifC13_LabelViews: annotations synced with a real labelmap volume over the model store: block (0,0,0) holds body
// la for x < 8 and background elsewhere, block (1,0,0) is solid body lb (symbolic labels).  After every short
// sequence of element posts, deletions and moves (the real StoreElements / DeleteElement / MoveElement with their label
// lookups through the real labelmap read path) the per-body index of each body returns exactly the elements that sit
// on a voxel of that body, and background elements are in no body's index.
// Params: number of requests; first request kind + 1 (0: any).
func VerifC13_LabelViews() {
	nOps, firstOp := vh.Param(0), vh.Param(1)
	s := vstore.New()
	uuid, v := datastore.VerifInstallRootRepo(s, 1)
	const lmUUID = dvid.UUID("11111111111111111111111111111111")
	lm := labelmap.VerifNewLabelmap(s, dvid.InstanceID(3), uuid, v, lmUUID)
	la, lb := vh.U64("bodyA"), vh.U64("bodyB")
	vh.Assume(la != 0 && lb != 0 && la != lb)
	size := dvid.Point3d{16, 16, 16}
	vol := make([]byte, 16*16*16*8)
	for z := 0; z < 16; z++ {
		for y := 0; y < 16; y++ {
			for x := 0; x < 8; x++ {
				i := (z*256 + y*16 + x) * 8
				for b := 0; b < 8; b++ {
					vol[i+b] = byte(la >> (8 * uint(b)))
				}
			}
		}
	}
	mixed, err := labels.MakeBlock(vol, size)
	vh.Assert(err == nil, "mixed block builds")
	labelmap.VerifPutBlock(lm, s, v, dvid.ChunkPoint3d{0, 0, 0}, mixed)
	labelmap.VerifPutBlock(lm, s, v, dvid.ChunkPoint3d{1, 0, 0}, labels.MakeSolidBlock(lb, size))

	d := &Data{Data: datastore.VerifNewData("ann", dvid.InstanceID(9), true)}
	d.SetKVStore(s)
	d.SetSync(dvid.UUIDSet{lmUUID: struct{}{}})
	datastore.VerifAddData(uuid, d)
	ctx := datastore.NewVersionedCtx(d, v)

	// positions: two on body A, one on background (same block), one on body B (next block)
	pts := []dvid.Point3d{{3, 1, 1}, {5, 2, 2}, {10, 1, 1}, {20, 1, 1}}
	labelAt := func(p dvid.Point3d) uint64 {
		switch {
		case p[0] < 8:
			return la
		case p[0] < 16:
			return 0
		}
		return lb
	}
	var model []dvid.Point3d
	find := func(p dvid.Point3d) int {
		for i, q := range model {
			if q.Equals(p) {
				return i
			}
		}
		return -1
	}
	for op := 0; op < nOps; op++ {
		kindOfOp := firstOp - 1
		if op > 0 || firstOp == 0 {
			kindOfOp = vh.Choice("op", 3)
		}
		switch kindOfOp {
		case 0:
			p := pts[vh.Choice("at", len(pts))]
			js, err := json.Marshal(Elements{{ElementNR: ElementNR{Pos: p, Kind: PostSyn}}})
			vh.Assert(err == nil, "marshal")
			vh.Assert(d.StoreElements(ctx, bytes.NewReader(js), true) == nil, "post succeeds")
			if find(p) < 0 {
				model = append(model, p)
			}
		case 1:
			p := pts[vh.Choice("at", len(pts))]
			err := d.DeleteElement(ctx, p, true)
			i := find(p)
			vh.Assert((err == nil) == (i >= 0), "a delete succeeds exactly when an element is there")
			if i >= 0 {
				model = append(model[:i:i], model[i+1:]...)
			}
		default:
			from, to := pts[vh.Choice("from", len(pts))], pts[vh.Choice("to", len(pts))]
			if from.Equals(to) || find(to) >= 0 {
				continue
			}
			err := d.MoveElement(ctx, from, to, true)
			i := find(from)
			vh.Assert((err == nil) == (i >= 0), "a move succeeds exactly when an element is there")
			if i >= 0 {
				model[i] = to
			}
		}
	}
	vh.Quiesce()
	for _, body := range []uint64{la, lb} {
		got, err := getElementsNR(ctx, NewLabelTKey(body))
		vh.Assert(err == nil, "per-body index readable")
		want := 0
		for _, p := range model {
			if labelAt(p) != body {
				continue
			}
			want++
			n := 0
			for _, e := range got {
				if e.Pos.Equals(p) {
					n++
				}
			}
			vh.Assert(n == 1, "the per-body index returns every element sitting on a voxel of the body, once")
		}
		vh.Assert(len(got) == want, "the per-body index returns only elements sitting on a voxel of the body")
	}
	bg, err := getElementsNR(ctx, NewLabelTKey(0))
	vh.Assert(err == nil && len(bg) == 0, "background elements are in no body's index")
	vh.Reach("end")
}
