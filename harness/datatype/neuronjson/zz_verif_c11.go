//go:build verif

package neuronjson

import (
	"github.com/janelia-flyem/dvid/datastore"
	"github.com/janelia-flyem/dvid/dvid"
	"github.com/janelia-flyem/dvid/zzverif/vh"
	"github.com/janelia-flyem/dvid/zzverif/vstore"
)

// VerifC11_Updates: two neuron-annotation requests for one body processed concurrently (every interleaving of their
// store operations and lock operations with at most k preemptions), both acknowledged: the stored annotation and the
// in-memory head agree and equal what one of the two sequential orders produces - no acknowledged field is lost.
// Params: preemption bound; pair (0: update field a || update field c, 1: update field a || delete the annotation).
func VerifC11_Updates() {
	k, pair := vh.Param(0), vh.Param(1)
	s := vstore.New()
	uuid, v := datastore.VerifInstallRootRepo(s, 1)
	dd := new(datastore.Data)
	dd.SetKVStore(s)
	dd.SetInstanceID(dvid.InstanceID(5))
	d := &Data{Data: dd}
	mdb := &memdb{data: map[uint64]NeuronJSON{}, fields: map[string]int64{}, fieldTimes: map[string]string{}}
	d.dbs = &memdbs{static: map[dvid.UUID]*memdb{uuid: mdb}, head: map[string]*memdb{}}
	ctx := datastore.NewVersionedCtx(d, v)
	ctx.User = "bob"
	const key = "77"
	const bodyid = uint64(77)
	orig := NeuronJSON{"b": vVal("oldB"), "b_user": "alice", "b_time": "2020-01-01T00:00:00Z"}
	vh.Assert(d.putStoreData(ctx, key, orig) == nil, "seed annotation stored")
	mem := NeuronJSON{}
	for f, x := range orig {
		mem[f] = x
		mdb.fields[f]++
	}
	mdb.data[bodyid] = mem
	mdb.ids = []uint64{bodyid}

	var e1, e2 error
	vh.Schedule(k)
	go func() { e1 = d.storeAndUpdate(ctx, key, NeuronJSON{"a": vVal("newA")}, nil, false) }()
	if pair == 0 {
		go func() { e2 = d.storeAndUpdate(ctx, key, NeuronJSON{"c": vVal("newC")}, nil, false) }()
	} else {
		go func() { e2 = d.DeleteData(ctx, key) }()
	}
	vh.Quiesce()
	vh.Assert(e1 == nil && e2 == nil, "both requests acknowledged")

	stored, found, err := d.getStoreData(ctx, key)
	vh.Assert(err == nil, "store readable")
	memNow, inMem := mdb.data[bodyid]
	vh.Assert(found == inMem, "the annotation exists in memory iff it exists in the store")
	for _, f := range []string{"a", "b", "c"} {
		sv, sok := stored[f]
		mv, mok := memNow[f]
		vh.Assert(sok == mok && (!sok || sv == mv), "in-memory head and store hold the same fields and values")
	}
	if pair == 0 {
		_, hasA := stored["a"]
		_, hasB := stored["b"]
		_, hasC := stored["c"]
		vh.Assert(found && hasA && hasB && hasC, "both acknowledged field updates are in the stored annotation (either order gives a, b and c)")
	} else {
		// update then delete: gone; delete then update: only field a
		_, hasA := stored["a"]
		_, hasB := stored["b"]
		vh.Assert(!found || (hasA && !hasB), "the annotation is deleted, or re-created by the update with only its field - some sequential order")
	}
	vh.Reach("end")
}
