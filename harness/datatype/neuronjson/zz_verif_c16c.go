//go:build verif

package neuronjson

import (
	"net/http"

	"github.com/janelia-flyem/dvid/datastore"
	"github.com/janelia-flyem/dvid/dvid"
	"github.com/janelia-flyem/dvid/zzverif/vh"
	"github.com/janelia-flyem/dvid/zzverif/vstore"
)

// vCountWriter: an http.ResponseWriter that counts output calls.  Under the engine every fmt.Fprint / Fprintf to it
// counts as one call (the text is not modelled); natively fmt issues exactly one Write per call, so the counts agree.
type vCountWriter struct {
	N int
	h http.Header
}

func (c *vCountWriter) Tick()                       { c.N++ }
func (c *vCountWriter) Write(p []byte) (int, error) { c.N++; return len(p), nil }
func (c *vCountWriter) Header() http.Header {
	if c.h == nil {
		c.h = http.Header{}
	}
	return c.h
}
func (c *vCountWriter) WriteHeader(int) {}

// VerifC16_Query: a query answered from the in-memory copy of the head returns exactly as many annotations as the
// documented match rule (some query of the list has every condition satisfied) selects among the annotations of that
// version - the annotations VerifC16_Store shows to be the store's.  State: one or two annotations (bodies 77, 78),
// each with or without field "a" (symbolic value) and "c", field counters equal to a recount.  Query forms (param 0):
// 0 existence of "a" (symbolic true/false), 1 existence of a field no annotation has (symbolic true/false), 2 "a"
// equals a symbolic string, 3 AND of existence("c") and existence of the unused field, 4 OR-list of forms 1 and 0.
// Output text is not modelled (one count per output call): 2m-1 calls for m matches.
func VerifC16_Query() {
	form := vh.Param(0)
	s := vstore.New()
	uuid, _ := datastore.VerifInstallRootRepo(s, 1)
	dd := new(datastore.Data)
	dd.SetKVStore(s)
	dd.SetInstanceID(dvid.InstanceID(5))
	d := &Data{Data: dd}
	mdb := &memdb{data: map[uint64]NeuronJSON{}, fields: map[string]int64{}, fieldTimes: map[string]string{}}
	d.dbs = &memdbs{static: map[dvid.UUID]*memdb{uuid: mdb}, head: map[string]*memdb{}}
	var recs []NeuronJSON
	for i := 0; i < 2; i++ {
		if i == 1 && !vh.Bool("second") {
			break
		}
		bodyid := uint64(77 + i)
		ann := NeuronJSON{"bodyid": bodyid}
		if vh.Bool("hasA") {
			ann["a"] = vVal("valA")
		}
		if vh.Bool("hasC") {
			ann["c"] = "x"
		}
		for f := range ann {
			mdb.fields[f]++
		}
		mdb.data[bodyid] = ann
		mdb.ids = append(mdb.ids, bodyid)
		recs = append(recs, ann)
	}
	exA, exZ := FieldExistence(vh.Bool("existsA")), FieldExistence(vh.Bool("existsZ"))
	var queryL ListQueryJSON
	switch form {
	case 0:
		queryL = ListQueryJSON{{"a": exA}}
	case 1:
		queryL = ListQueryJSON{{"zz": exZ}}
	case 2:
		queryL = ListQueryJSON{{"a": vh.Str("queryA", 1)}}
	case 3:
		queryL = ListQueryJSON{{"c": FieldExistence(true), "zz": exZ}}
	default:
		queryL = ListQueryJSON{{"zz": exZ}, {"a": exA}}
	}
	// reference: the documented rule written out for these query forms
	hasVal := func(r NeuronJSON, f string) bool { x, ok := r[f]; return ok && x != nil }
	want := 0
	for _, r := range recs {
		var m bool
		switch form {
		case 0:
			m = hasVal(r, "a") == bool(exA)
		case 1:
			m = !bool(exZ)
		case 2:
			x, ok := r["a"]
			if ok {
				m = x == queryL[0]["a"]
			}
		case 3:
			m = hasVal(r, "c")
			if bool(exZ) {
				m = false
			}
		default:
			m = !bool(exZ)
			if hasVal(r, "a") == bool(exA) {
				m = true
			}
		}
		if m {
			want++
		}
	}
	wm := &vCountWriter{}
	vh.Assert(d.queryInMemory(mdb, wm, queryL, nil, ShowBasic, true) == nil, "in-memory query succeeds")
	calls := 0
	if want > 0 {
		calls = 2*want - 1
	}
	vh.Assert(wm.N == calls, "the in-memory path returns exactly the annotations the match rule selects")
	vh.Reach("end")
}
