//go:build verif

package neuronjson

import (
	"strings"

	"github.com/janelia-flyem/dvid/datastore"
	"github.com/janelia-flyem/dvid/zzverif/vh"
)

// VerifC02_Mutation: which requests this data type declares to be mutations, for every spelling of the method and
// every endpoint keyword: POST/PUT/DELETE (any letter case) are mutations except the documented read-only POST query.
// Params: method length, keyword length.
func VerifC02_Mutation() {
	d := &Data{Data: datastore.VerifNewData("n", 3, true)}
	m, k := vh.Str("method", vh.Param(0)), vh.Str("keyword", vh.Param(1))
	for i := 0; i < len(m); i++ {
		vh.Assume(m[i] < 0x80)
	}
	l := strings.ToLower(m)
	want := (l == "post" || l == "put" || l == "delete") && !(k == "query" && l == "post")
	vh.Assert(d.IsMutationRequest(m, k) == want, "POST/PUT/DELETE are mutations except the read-only POST query")
	vh.Reach("end")
}
