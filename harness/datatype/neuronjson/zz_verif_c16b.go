//go:build verif

package neuronjson

import (
	"github.com/janelia-flyem/dvid/datastore"
	"github.com/janelia-flyem/dvid/dvid"
	dvidbadger "github.com/janelia-flyem/dvid/storage/badger"
	"github.com/janelia-flyem/dvid/zzverif/vh"
	"github.com/janelia-flyem/dvid/zzverif/vstore"
)

// VerifC16_Reload: after every short sequence of neuron-annotation updates and deletions (the real storeAndUpdate /
// DeleteData, writing the in-memory head and the store - DVID's Badger engine code over the store model), the
// in-memory copy a restart builds from the store (the real loadMemDB: range scan, decimal keys, id sort) holds the
// same annotations, the same sorted id list and the same per-field counts as the live copy.
// Bodies 5, 77 and 123 (whose decimal keys sort differently from their numbers), fields a and b with symbolic values.
// Params: number of requests.
func VerifC16_Reload() {
	nOps := vh.Param(0)
	uuid, v := datastore.VerifInstallRootRepo(vstore.New(), 1)
	db, _ := dvidbadger.VerifNewModelDB()
	dd := new(datastore.Data)
	dd.SetKVStore(db)
	dd.SetInstanceID(dvid.InstanceID(6))
	d := &Data{Data: dd}
	live := &memdb{data: map[uint64]NeuronJSON{}, fields: map[string]int64{}, fieldTimes: map[string]string{}}
	d.dbs = &memdbs{static: map[dvid.UUID]*memdb{uuid: live}, head: map[string]*memdb{}}
	ctx := datastore.NewVersionedCtx(d, v)
	ctx.User = "bob"
	keys := []string{"5", "77", "123"}
	ids := []uint64{5, 77, 123}
	for op := 0; op < nOps; op++ {
		k := vh.Choice("body", 3)
		switch vh.Choice("op", 4) {
		case 0:
			vh.Assert(d.storeAndUpdate(ctx, keys[k], NeuronJSON{"a": vVal("valA")}, nil, false) == nil, "update accepted")
		case 1:
			vh.Assert(d.storeAndUpdate(ctx, keys[k], NeuronJSON{"b": vVal("valB")}, nil, false) == nil, "update accepted")
		case 2:
			vh.Assert(d.storeAndUpdate(ctx, keys[k], NeuronJSON{"a": nil}, nil, false) == nil, "null update accepted")
		default:
			vh.Assert(d.DeleteData(ctx, keys[k]) == nil, "delete accepted")
		}
	}
	// restart
	re := &memdb{data: map[uint64]NeuronJSON{}, fields: map[string]int64{}, fieldTimes: map[string]string{}}
	vh.Assert(d.loadMemDB(v, re) == nil, "the in-memory copy loads from the store")
	vh.Assert(len(re.data) == len(live.data) && len(re.ids) == len(live.ids), "the same annotations exist after the restart")
	for i := range re.ids {
		vh.Assert(i >= len(live.ids) || re.ids[i] == live.ids[i], "the sorted id list is the same")
		vh.Assert(i == 0 || re.ids[i-1] < re.ids[i], "the id list is sorted by number")
	}
	for _, id := range ids {
		a, okA := live.data[id]
		b, okB := re.data[id]
		vh.Assert(okA == okB, "an annotation exists after the restart iff it existed before")
		for _, f := range []string{"a", "a_user", "a_time", "b", "b_user", "b_time", "bodyid"} {
			x, okX := a[f]
			y, okY := b[f]
			vh.Assert(okX == okY && (!okX || x == y), "every field has the same value after the restart")
		}
	}
	for _, f := range []string{"a", "a_user", "a_time", "b", "b_user", "b_time", "bodyid"} {
		vh.Assert(re.fields[f] == live.fields[f], "per-field counts are the same after the restart")
	}
	vh.Reach("end")
}
