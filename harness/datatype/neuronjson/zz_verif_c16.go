//go:build verif

package neuronjson

import (
	"github.com/janelia-flyem/dvid/datastore"
	"github.com/janelia-flyem/dvid/dvid"
	"github.com/janelia-flyem/dvid/zzverif/vh"
	"github.com/janelia-flyem/dvid/zzverif/vstore"
)

// vVal: a field value: one of two symbolic strings, compared only for equality.
func vVal(name string) interface{} {
	return vh.Str(name, 1)
}

// VerifC16_Update: the merge rules of a partial update on one annotation with one tracked field "a" (plus an
// untouched field "b"): fields not mentioned are kept, a null removes the value, and a field's _user/_time stamps
// change iff its value changes; a conditional field keeps its stored value and stamps.
// Params: replace (0/1), conditional on "a" (0/1), posted form of "a" (0 absent, 1 value, 2 null).
func VerifC16_Update() {
	replace, cond, form := vh.Param(0) == 1, vh.Param(1) == 1, vh.Param(2)
	oldA, oldUser, oldTime := vVal("oldA"), "alice", "2020-01-01T00:00:00Z"
	oldB := vVal("oldB")
	orig := NeuronJSON{"bodyid": vh.U64("bodyid"), "a": oldA, "a_user": oldUser, "a_time": oldTime, "b": oldB, "b_user": oldUser, "b_time": oldTime}
	hadA := vh.Bool("origHasA")
	if !hadA {
		delete(orig, "a")
		delete(orig, "a_user")
		delete(orig, "a_time")
	}
	posted := NeuronJSON{"bodyid": orig["bodyid"]}
	var newA interface{}
	switch form {
	case 1:
		newA = vVal("newA")
		posted["a"] = newA
	case 2:
		posted["a"] = nil
	}
	var conds []string
	if cond {
		conds = []string{"a"}
	}
	user := "bob"
	updateJSON(orig, posted, user, conds, replace)
	out := posted // updateJSON builds the result in newData

	// field b was not mentioned
	if !replace {
		vh.Assert(out["b"] == oldB && out["b_user"] == oldUser && out["b_time"] == oldTime, "a field the update does not mention keeps its value and stamps")
	} else {
		_, has := out["b"]
		vh.Assert(!has, "replace=true drops fields that are not posted")
	}
	switch form {
	case 0:
		if !replace && hadA {
			vh.Assert(out["a"] == oldA && out["a_user"] == oldUser && out["a_time"] == oldTime, "an unmentioned field keeps value and stamps")
		}
	case 2:
		_, has := out["a"]
		vh.Assert(!has, "a null removes the field's value")
	case 1:
		protected := cond && hadA && !replace
		if protected {
			vh.Assert(out["a"] == oldA && out["a_user"] == oldUser && out["a_time"] == oldTime, "a conditional field that already has a value keeps its value and stamps")
		} else {
			vh.Assert(out["a"] == newA, "a posted value is stored")
			changed := !hadA || newA != oldA
			if changed {
				vh.Assert(out["a_user"] == user && out["a_time"] != oldTime, "stamps are renewed when the value changes")
			} else {
				vh.Assert(out["a_user"] == oldUser && out["a_time"] == oldTime, "stamps are unchanged when the value does not change")
			}
		}
	}
	vh.Reach("end")
}

// VerifC16_BodyIDs: the sorted in-memory id list: add inserts once keeping order, delete removes exactly that id.
// Params: list length (0..4), operation (0 add, 1 delete).
func VerifC16_BodyIDs() {
	n, op := vh.Param(0), vh.Param(1)
	mdb := &memdb{data: map[uint64]NeuronJSON{}, fields: map[string]int64{}, fieldTimes: map[string]string{}}
	for i := 0; i < n; i++ {
		id := vh.U64("id")
		if i > 0 {
			vh.Assume(id > mdb.ids[i-1]) // sorted, distinct
		}
		mdb.ids = append(mdb.ids, id)
	}
	before := append([]uint64{}, mdb.ids...)
	x := vh.U64("x")
	present := false
	for _, id := range before {
		if id == x {
			present = true
		}
	}
	if op == 0 {
		mdb.addBodyID(x)
		want := len(before) + 1
		if present {
			want = len(before)
		}
		vh.Assert(len(mdb.ids) == want, "an id is listed once however often it is added")
	} else {
		mdb.deleteBodyID(x)
		want := len(before)
		if present {
			want--
		}
		vh.Assert(len(mdb.ids) == want, "deleting removes the id if present and nothing else")
	}
	cnt := 0
	for i, id := range mdb.ids {
		if i > 0 {
			vh.Assert(mdb.ids[i-1] < id, "the id list stays sorted and duplicate-free")
		}
		if id == x {
			cnt++
		}
	}
	vh.Assert(cnt == vB2I(op == 0), "the id is present after add and absent after delete")
	for _, id := range before {
		if id != x {
			found := false
			for _, y := range mdb.ids {
				if y == id {
					found = true
				}
			}
			vh.Assert(found, "other ids are kept")
		}
	}
	vh.Reach("end")
}

func vB2I(b bool) int {
	if b {
		return 1
	}
	return 0
}

// VerifC16_Store: the in-memory head and the persistent store after one update / delete of an annotation.
// Pre-state: the head version holds (or not) an annotation for the body, in memory and in the store alike, and the
// per-field counters equal a recount.  One storeAndUpdate (or DeleteData) later the two copies are still the same
// annotation, the counters still equal a recount, and the id list is exact.
// Params: posted form of field a (0 absent, 1 value, 2 null), replace (0/1), operation (0 update, 1 delete).
func VerifC16_Store() {
	form, replace, op := vh.Param(0), vh.Param(1) == 1, vh.Param(2)
	s := vstore.New()
	uuid, v := datastore.VerifInstallRootRepo(s, dvid.VersionID(vh.U32("version")))
	dd := new(datastore.Data)
	dd.SetKVStore(s)
	dd.SetInstanceID(dvid.InstanceID(vh.U32("inst")))
	d := &Data{Data: dd}
	mdb := &memdb{data: map[uint64]NeuronJSON{}, fields: map[string]int64{}, fieldTimes: map[string]string{}}
	d.dbs = &memdbs{static: map[dvid.UUID]*memdb{uuid: mdb}, head: map[string]*memdb{}}
	ctx := datastore.NewVersionedCtx(d, v)
	ctx.User = "bob"
	const key = "77"
	const bodyid = uint64(77)

	if vh.Bool("exists") {
		orig := NeuronJSON{"a": vVal("oldA"), "a_user": "alice", "a_time": "2020-01-01T00:00:00Z", "b": vVal("oldB"), "b_user": "alice", "b_time": "2020-01-01T00:00:00Z"}
		vh.Assert(d.putStoreData(ctx, key, orig) == nil, "seed annotation stored")
		mem := NeuronJSON{}
		for f, x := range orig {
			mem[f] = x
			mdb.fields[f]++
		}
		mdb.data[bodyid] = mem
		mdb.ids = []uint64{bodyid}
	}
	if op == 0 {
		posted := NeuronJSON{}
		switch form {
		case 1:
			posted["a"] = vVal("newA")
		case 2:
			posted["a"] = nil
		}
		if vh.Bool("postC") {
			posted["c"] = vVal("newC")
		}
		vh.Assert(d.storeAndUpdate(ctx, key, posted, nil, replace) == nil, "update accepted")
	} else {
		vh.Assert(d.DeleteData(ctx, key) == nil, "delete accepted")
	}

	stored, found, err := d.getStoreData(ctx, key)
	vh.Assert(err == nil, "store readable")
	mem, inMem := mdb.data[bodyid]
	vh.Assert(found == inMem, "the annotation exists in memory iff it exists in the store")
	fields := []string{"a", "a_user", "a_time", "b", "b_user", "b_time", "c", "c_user", "c_time"}
	for _, f := range fields {
		sv, sok := stored[f]
		mv, mok := mem[f]
		vh.Assert(sok == mok && (!sok || sv == mv), "in-memory head and store hold the same fields and values")
		want := int64(0)
		if mok {
			want = 1
		}
		vh.Assert(mdb.fields[f] == want, "per-field counts equal a recount over the annotations")
	}
	wantIDs := 0
	if inMem {
		wantIDs = 1
	}
	vh.Assert(len(mdb.ids) == wantIDs && (wantIDs == 0 || mdb.ids[0] == bodyid), "the id list names exactly the stored annotations")
	vh.Reach("end")
}
