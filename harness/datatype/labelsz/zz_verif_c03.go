//go:build verif

package labelsz

import (
	"github.com/janelia-flyem/dvid/datastore"
	"github.com/janelia-flyem/dvid/dvid"
	"github.com/janelia-flyem/dvid/zzverif/vh"
)

// VerifC03_Settings: a labelsz instance's settings (identity, syncs, static ROI) survive the metadata round trip of a
// restart through the real GobEncode / GobDecode chain.
func VerifC03_Settings() {
	base := datastore.VerifNewData(dvid.InstanceName(vh.Str("name", 2)), dvid.InstanceID(vh.U32("id")), true)
	base.SetSync(dvid.UUIDSet{dvid.UUID(vh.Str("sync", 2)): struct{}{}})
	d := &Data{Data: base}
	d.Properties.StaticROI = vh.Str("roi", 3)
	ser, err := dvid.Serialize(d, dvid.Compression{}, dvid.NoChecksum)
	vh.Assert(err == nil, "the instance serialises")
	back := new(Data)
	vh.Assert(dvid.Deserialize(ser, back) == nil, "the instance deserialises")
	vh.Assert(back.DataName() == d.DataName() && back.InstanceID() == d.InstanceID(), "identity survives")
	vh.Assert(back.Properties.StaticROI == d.Properties.StaticROI, "the static ROI survives")
	vh.Assert(len(back.SyncedData()) == 1, "syncs survive")
	for u := range d.SyncedData() {
		_, ok := back.SyncedData()[u]
		vh.Assert(ok, "syncs survive")
	}
	vh.Reach("end")
}
