//go:build verif

package labelsz

import (
	"encoding/binary"

	"github.com/janelia-flyem/dvid/datastore"
	"github.com/janelia-flyem/dvid/datatype/annotation"
	"github.com/janelia-flyem/dvid/dvid"
	"github.com/janelia-flyem/dvid/zzverif/vh"
	"github.com/janelia-flyem/dvid/zzverif/vstore"
)

type vCount struct {
	i     IndexType
	label uint64
	pre   uint32
}

// VerifC13_Counts: one element-change event delivered to a synced labelsz instance (the real modifyElements over the
// model store) from an arbitrary consistent pre-state: for every (index type, body) touched, the stored count becomes
// the count before plus additions minus deletions, a count of zero is removed, and the two key families (count by
// body, bodies ranked by count) stay consistent with each other.  Bodies and element kinds of the events are
// symbolic (they may coincide), counts before are symbolic.
// Params: number of additions, number of deletions in the event.
func VerifC13_Counts() {
	nAdd, nDel := vh.Param(0), vh.Param(1)
	s := vstore.New()
	uuid, v := datastore.VerifInstallRootRepo(s, 1)
	d := &Data{Data: datastore.VerifNewData("sz", dvid.InstanceID(11), true)}
	d.SetKVStore(s)
	datastore.VerifAddData(uuid, d)
	ctx := datastore.NewVersionedCtx(d, v)

	var delta annotation.DeltaModifyElements
	mk := func() annotation.ElementPos {
		k := annotation.ElementType(vh.U8("kind"))
		vh.Assume(k <= annotation.Note)
		return annotation.ElementPos{Label: vh.U64("body"), Kind: k, Pos: dvid.Point3d{1, 2, 3}}
	}
	for i := 0; i < nAdd; i++ {
		delta.Add = append(delta.Add, mk())
	}
	for i := 0; i < nDel; i++ {
		delta.Del = append(delta.Del, mk())
	}

	// the (index type, body) pairs the event touches, each with an arbitrary count before (stored consistently)
	var touched []vCount
	touch := func(i IndexType, label uint64) {
		for _, t := range touched {
			if t.i == i && t.label == label {
				return
			}
		}
		c := vh.U32("countBefore")
		vh.Assume(c < 1<<30)
		touched = append(touched, vCount{i, label, c})
		if c > 0 {
			buf := make([]byte, 4)
			binary.LittleEndian.PutUint32(buf, c)
			vh.Assert(s.Put(ctx, NewTypeLabelTKey(i, label), buf) == nil, "count stored")
			vh.Assert(s.Put(ctx, NewTypeSizeLabelTKey(i, c, label), nil) == nil, "rank entry stored")
		}
	}
	all := append(append([]annotation.ElementPos{}, delta.Add...), delta.Del...)
	for _, e := range all {
		touch(elementToIndexType(e.Kind), e.Label)
		if e.Kind.IsSynaptic() {
			touch(AllSyn, e.Label)
		}
	}

	d.modifyElements(ctx, delta, s)

	for _, t := range touched {
		change := int64(0)
		for _, e := range delta.Add {
			if e.Label == t.label && (elementToIndexType(e.Kind) == t.i || (t.i == AllSyn && e.Kind.IsSynaptic())) {
				change++
			}
		}
		for _, e := range delta.Del {
			if e.Label == t.label && (elementToIndexType(e.Kind) == t.i || (t.i == AllSyn && e.Kind.IsSynaptic())) {
				change--
			}
		}
		want := int64(t.pre) + change
		if want < 0 {
			want = 0 // more deletions than elements counted: the count stops at zero
		}
		val, err := s.Get(ctx, NewTypeLabelTKey(t.i, t.label))
		vh.Assert(err == nil, "count readable")
		if want == 0 {
			vh.Assert(val == nil, "a count of zero is removed")
		} else {
			vh.Assert(len(val) == 4 && int64(binary.LittleEndian.Uint32(val)) == want, "the count is the count before plus additions minus deletions")
			rank, _ := s.Exists(ctx, NewTypeSizeLabelTKey(t.i, uint32(want), t.label))
			vh.Assert(rank, "the body is ranked under its current count")
		}
		if int64(t.pre) != want && t.pre > 0 {
			old, _ := s.Exists(ctx, NewTypeSizeLabelTKey(t.i, t.pre, t.label))
			vh.Assert(!old, "the body is no longer ranked under its previous count")
		}
	}
	vh.Reach("end")
}
