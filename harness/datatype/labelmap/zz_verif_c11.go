//go:build verif

package labelmap

import (
	"github.com/janelia-flyem/dvid/zzverif/vh"
)

// VerifC11_MaxLabel: two concurrent ingests raising the maximum label of one version: the result is the maximum of
// both (what either sequential order gives) under every interleaving.  Param 0: preemption bound.
func VerifC11_MaxLabel() {
	c := vArbitraryCounters()
	d := c.d
	l1, l2 := vh.U64("label1"), vh.U64("label2")
	vh.Schedule(vh.Param(0))
	go func() { d.updateMaxLabel(c.v1, l1) }()
	go func() { d.updateMaxLabel(c.v1, l2) }()
	vh.Quiesce()
	want := c.m1
	if l1 > want {
		want = l1
	}
	if l2 > want {
		want = l2
	}
	vh.Assert(d.MaxLabel[c.v1] == want, "the version maximum is the maximum of all ingested labels (no lost update)")
	vh.Assert(d.MaxRepoLabel >= want && d.MaxRepoLabel >= c.repoMax, "the repo-wide maximum dominates")
	vh.Reach("end")
}

// VerifC11_NewLabels: concurrent allocations get disjoint label ranges.
func VerifC11_NewLabels() {
	c := vArbitraryCounters()
	d := c.d
	vh.Assume(c.repoMax < 1<<62 && c.next < 1<<62)
	n := vh.U64("numLabels")
	vh.Assume(n >= 1 && n < 1<<32)
	var a, b0, b1 uint64
	var ea, eb error
	vh.Schedule(vh.Param(0))
	go func() { a, ea = d.newLabel(c.v1) }()
	go func() { b0, b1, eb = d.newLabels(c.v1, n) }()
	vh.Quiesce()
	vh.Assert(ea == nil && eb == nil, "both allocations succeed")
	vh.Assert(a < b0 || a > b1, "a label allocated concurrently is outside the concurrently allocated range")
	vh.Reach("end")
}
