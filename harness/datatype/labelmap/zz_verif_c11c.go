//go:build verif

package labelmap

import (
	"github.com/janelia-flyem/dvid/datastore"
	"github.com/janelia-flyem/dvid/datatype/common/labels"
	"github.com/janelia-flyem/dvid/datatype/common/proto"
	"github.com/janelia-flyem/dvid/dvid"
	"github.com/janelia-flyem/dvid/zzverif/vh"
	"github.com/janelia-flyem/dvid/zzverif/vstore"
)

// VerifC11_Merges: two body-level requests that touch one body, processed concurrently through the real MergeLabels
// (mutation id, label-index reads and writes, mapping update) and cleaveIndex, every interleaving of their lock and
// store operations with at most k preemptions; both acknowledged: the target's stored index holds every supervoxel an
// acknowledged merge moved into it (no merge is lost), merged bodies are gone, voxel counts are conserved.
// Params: preemption bound; pair (0: merge 20->10 || merge 30->10, 1: merge 20->10 || cleave sv 11 off 10,
// 2: merge 20->10 || block change on body 10 (voxel ingest), 3: merge 20->10 || cleave sv 21 off body 20, 4: renumber 20->40 || block change on body 20).
func VerifC11_Merges() {
	k, pair := vh.Param(0), vh.Param(1)
	s := vstore.New()
	uuid, v := datastore.VerifInstallRootRepo(s, 1)
	d := vNewData(s, dvid.InstanceID(3))
	datastore.VerifAddData(uuid, d)
	vc := newVCache(4)
	iMap.Lock()
	if iMap.maps == nil {
		iMap.maps = make(map[dvid.UUID]*VCache)
	}
	iMap.maps[d.DataUUID()] = vc
	iMap.Unlock()
	vh.Assert(vc.initToVersion(d, v, false) == nil, "mapping cache initialised")

	bk := labels.EncodeBlockIndex(1, 2, 3)
	n10, n11, n20, n30 := vh.U32("n10"), vh.U32("n11"), vh.U32("n20"), vh.U32("n30")
	vh.Assume(n10 > 0 && n11 > 0 && n20 > 0 && n30 > 0 && n10 < 1<<20 && n11 < 1<<20 && n20 < 1<<20 && n30 < 1<<20)
	put := func(label uint64, counts map[uint64]uint32) {
		idx := new(labels.Index)
		idx.Label = label
		idx.Blocks = map[uint64]*proto.SVCount{bk: {Counts: counts}}
		vh.Assert(putCachedLabelIndex(d, v, idx) == nil, "body index stored")
	}
	put(10, map[uint64]uint32{10: n10, 11: n11})
	if pair == 3 {
		put(20, map[uint64]uint32{20: n20, 21: n11})
	} else {
		put(20, map[uint64]uint32{20: n20})
	}
	put(30, map[uint64]uint32{30: n30})
	info := dvid.ModInfo{User: "u", App: "a", Time: "t"}

	var e1, e2 error
	izyx := dvid.ChunkPoint3d{1, 2, 3}.ToIZYXString()
	if pair == 4 {
		vh.Schedule(k)
		go func() { _, e1 = d.RenumberLabels(v, 20, 40, info) }()
		go func() { e2 = ChangeLabelIndex(d, v, 20, labels.SupervoxelChanges{20: {izyx: 5}}) }()
		vh.Quiesce()
		vh.Assert(e1 == nil && e2 == nil, "both requests acknowledged")
		ctx := datastore.NewVersionedCtx(d, v)
		g20, _ := getLabelIndex(ctx, 20)
		g40, _ := getLabelIndex(ctx, 40)
		// renumber then change: the change re-creates an index for label 20 with only the delta; change then renumber:
		// body 40 holds n20+5.  Either way the 5 voxels of the acknowledged block change are recorded somewhere.
		c40, ok40 := vSV(g40, bk, 20)
		c20, ok20 := vSV(g20, bk, 20)
		vh.Assert(ok40 && ((c40 == n20+5 && !ok20) || (c40 == n20 && ok20 && c20 == 5)), "the renumbered body and the acknowledged block change are both recorded (some sequential order)")
		vh.Reach("end")
		return
	}
	vh.Schedule(k)
	go func() { _, e1 = d.MergeLabels(v, labels.MergeOp{Target: 10, Merged: labels.NewSet(20)}, info) }()
	if pair == 0 {
		go func() { _, e2 = d.MergeLabels(v, labels.MergeOp{Target: 10, Merged: labels.NewSet(30)}, info) }()
	} else if pair == 2 {
		go func() { e2 = ChangeLabelIndex(d, v, 10, labels.SupervoxelChanges{10: {izyx: 5}}) }()
	} else if pair == 3 {
		go func() {
			_, _, e2 = d.cleaveIndex(v, labels.CleaveOp{MutID: 99, Target: 20, CleavedLabel: 100, CleavedSupervoxels: []uint64{21}}, info)
		}()
	} else {
		go func() {
			_, _, e2 = d.cleaveIndex(v, labels.CleaveOp{MutID: 99, Target: 10, CleavedLabel: 100, CleavedSupervoxels: []uint64{11}}, info)
		}()
	}
	vh.Quiesce()
	ctx := datastore.NewVersionedCtx(d, v)
	if pair == 3 {
		// the two requests conflict on body 20: one of them may be refused, but the result must be one a sequential
		// order gives: supervoxel 21 is in exactly one body
		got, _ := getLabelIndex(ctx, 10)
		cl, _ := getLabelIndex(ctx, 100)
		_, in10 := vSV(got, bk, 21)
		_, in100 := vSV(cl, bk, 21)
		g20, _ := getLabelIndex(ctx, 20)
		_, in20 := vSV(g20, bk, 21)
		cnt := 0
		for _, b := range []bool{in10, in100, in20} {
			if b {
				cnt++
			}
		}
		vh.Assert(cnt == 1, "a supervoxel belongs to exactly one body's index")
		if e2 == nil {
			vh.Assert(in100, "an acknowledged cleave's supervoxel is in the cleaved body")
		}
		vh.Reach("end")
		return
	}
	vh.Assert(e1 == nil && e2 == nil, "both requests acknowledged")

	got, err := getLabelIndex(ctx, 10)
	vh.Assert(err == nil && got != nil, "target index readable")
	c10, ok10 := vSV(got, bk, 10)
	c20, ok20 := vSV(got, bk, 20)
	want10 := n10
	if pair == 2 {
		want10 = n10 + 5
	}
	vh.Assert(ok10 && c10 == want10 && ok20 && c20 == n20, "the target keeps its own supervoxel (with every acknowledged block change) and holds the one merged from body 20")
	g20, _ := getLabelIndex(ctx, 20)
	vh.Assert(g20 == nil, "the merged body 20 no longer has an index")
	if pair == 0 {
		c30, ok30 := vSV(got, bk, 30)
		vh.Assert(ok30 && c30 == n30, "the target holds the supervoxel merged from body 30 (no acknowledged merge is lost)")
		g30, _ := getLabelIndex(ctx, 30)
		vh.Assert(g30 == nil, "the merged body 30 no longer has an index")
	} else if pair == 1 {
		_, has11 := vSV(got, bk, 11)
		cl, _ := getLabelIndex(ctx, 100)
		c11, ok11 := vSV(cl, bk, 11)
		vh.Assert(!has11 && ok11 && c11 == n11, "the cleaved supervoxel left the target and is in the cleaved body (no acknowledged cleave is lost)")
	}
	vh.Reach("end")
}
