//go:build verif

package labelmap

import (
	"encoding/binary"
	"sync"

	"github.com/janelia-flyem/dvid/datastore"
	"github.com/janelia-flyem/dvid/datatype/imageblk"
	"github.com/janelia-flyem/dvid/dvid"
	"github.com/janelia-flyem/dvid/storage"
	"github.com/janelia-flyem/dvid/zzverif/vh"
	"github.com/janelia-flyem/dvid/zzverif/vstore"
)

// vNewData builds a labelmap instance directly on the heap over the model store.
func vNewData(s *vstore.Store, id dvid.InstanceID) *Data {
	dd := new(datastore.Data)
	dd.SetKVStore(s)
	dd.SetInstanceID(id)
	return &Data{Data: &imageblk.Data{Data: dd}, MaxLabel: make(map[dvid.VersionID]uint64)}
}

func vPut64(s *vstore.Store, ctx storage.Context, tk storage.TKey, x uint64) {
	buf := make([]byte, 8)
	binary.LittleEndian.PutUint64(buf, x)
	s.RawPut(ctx.ConstructKey(tk), buf)
}

// vCounterState: arbitrary counters satisfying the invariant "persisted == in-memory, repo max >= every version max".
type vCounters struct {
	d       *Data
	s       *vstore.Store
	v1, v2  dvid.VersionID
	m1, m2  uint64
	has2    bool
	repoMax uint64
	next    uint64
}

func vArbitraryCounters() *vCounters {
	c := &vCounters{s: vstore.New()}
	c.d = vNewData(c.s, dvid.InstanceID(vh.U32("inst")))
	c.v1, c.v2 = dvid.VersionID(vh.U32("v1")), dvid.VersionID(vh.U32("v2"))
	vh.Assume(c.v1 != c.v2)
	c.m1, c.m2, c.repoMax = vh.U64("max1"), vh.U64("max2"), vh.U64("repomax")
	c.has2 = vh.Bool("has2")
	vh.Assume(c.m1 <= c.repoMax && c.m2 <= c.repoMax)
	c.d.MaxLabel[c.v1] = c.m1
	vPut64(c.s, datastore.NewVersionedCtx(c.d, c.v1), maxLabelTKey, c.m1)
	if c.has2 {
		c.d.MaxLabel[c.v2] = c.m2
		vPut64(c.s, datastore.NewVersionedCtx(c.d, c.v2), maxLabelTKey, c.m2)
	}
	c.d.MaxRepoLabel = c.repoMax
	vPut64(c.s, storage.NewDataContext(c.d, 0), maxRepoLabelTKey, c.repoMax)
	if vh.Bool("hasnext") {
		c.next = vh.U64("next")
		vh.Assume(c.next != 0)
		c.d.NextLabel = c.next
		vPut64(c.s, storage.NewDataContext(c.d, 0), nextLabelTKey, c.next)
	}
	c.s.Writes = 0
	return c
}

// vReload rebuilds the counters from the store the way LoadMutable does (the harness plays RawRangeQuery).
func vReload(s *vstore.Store, id dvid.InstanceID) *Data {
	d2 := vNewData(s, id)
	ctx := storage.NewDataContext(d2, 0)
	minKey, _ := ctx.MinVersionKey(maxLabelTKey)
	maxKey, _ := ctx.MaxVersionKey(maxLabelTKey)
	ch := make(chan *storage.KeyValue, 16)
	s.RawRangeQuery(minKey, maxKey, false, ch, nil)
	wg := new(sync.WaitGroup)
	wg.Add(1)
	d2.loadLabelIDs(wg, ch)
	return d2
}

// VerifC12_NewLabels: one allocation (newLabel or newLabels) from an arbitrary consistent counter state.
// Param 0: 0 = newLabels(numLabels symbolic 64-bit), 1 = newLabel.
func VerifC12_NewLabels() {
	which := vh.Param(0)
	c := vArbitraryCounters()
	d := c.d
	v := c.v1
	if vh.Bool("otherversion") {
		v = dvid.VersionID(vh.U32("v3"))
	}
	var begin, end uint64
	var err error
	if which == 0 {
		n := vh.U64("numLabels")
		begin, end, err = d.newLabels(v, n)
		if err == nil {
			vh.Assert(n >= 1, "a request for zero labels is refused")
			vh.Assert(end-begin == n-1 && begin <= end, "the range holds exactly numLabels labels and does not wrap")
		}
	} else {
		begin, err = d.newLabel(v)
		end = begin
	}
	if err != nil {
		// refused: counters untouched
		vh.Assert(d.MaxRepoLabel == c.repoMax && d.NextLabel == c.next, "a refused allocation leaves the counters unchanged")
		vh.Reach("refused")
		return
	}
	if c.next == 0 {
		vh.Assert(begin > c.repoMax && begin > c.m1 && (!c.has2 || begin > c.m2), "new labels exceed every label present in the volume")
		vh.Assert(d.MaxRepoLabel >= end && d.MaxRepoLabel >= c.repoMax, "repo-wide maximum covers the issued range and never decreases")
		vh.Assert(d.MaxLabel[v] >= end, "version maximum covers the issued range")
	} else {
		vh.Assert(begin > c.next, "labels are issued above the administrator-set counter")
		vh.Assert(d.NextLabel >= end && d.NextLabel > c.next, "the next-label counter covers the issued range and moves forward")
	}
	// restart: what is reloaded is above everything acknowledged
	d2 := vReload(c.s, d.InstanceID())
	if c.next == 0 {
		vh.Assert(d2.MaxRepoLabel >= end, "after restart the repo-wide maximum is above every acknowledged label")
		vh.Assert(d2.NextLabel == 0, "no next-label override appears")
	} else {
		vh.Assert(d2.NextLabel >= end, "after restart the next-label counter is above every acknowledged label")
	}
	// a second allocation never overlaps the first
	b2, err2 := d.newLabel(v)
	if err2 == nil {
		vh.Assert(b2 > end, "a later allocation is above an earlier one")
	}
	vh.Reach("end")
}

// VerifC12_Crash: the process dies after the k-th store write of one allocation; after reload no counter has moved
// backwards and the repo-wide maximum still dominates every version maximum.
func VerifC12_Crash() {
	which := vh.Param(0)
	c := vArbitraryCounters()
	d := c.d
	c.s.CrashAt = vh.CrashAfter("crash", 2)
	if which == 0 {
		n := vh.U64("numLabels")
		vh.Assume(n >= 1 && n < 1<<62 && c.repoMax < 1<<62 && c.next < 1<<62)
		d.newLabels(c.v1, n)
	} else {
		vh.Assume(c.repoMax < 1<<62 && c.next < 1<<62)
		d.newLabel(c.v1)
	}
	d2 := vReload(c.s, d.InstanceID())
	vh.Assert(d2.MaxRepoLabel >= c.repoMax, "repo-wide maximum never moves backwards across a crash")
	vh.Assert(d2.NextLabel >= c.next, "next-label counter never moves backwards across a crash")
	for _, m := range d2.MaxLabel {
		vh.Assert(d2.MaxRepoLabel >= m, "reloaded repo-wide maximum dominates every version maximum")
	}
	// an allocation after recovery is above everything that was present before the crash
	if d2.NextLabel == 0 {
		lbl, err := d2.newLabel(c.v1)
		vh.Assert(err != nil || (lbl > c.repoMax && lbl > c.m1), "allocation after recovery exceeds every pre-crash label")
	}
	vh.Reach("end")
}

// VerifC12_UpdateMax: ingest-side maximum tracking keeps "repo max >= version max >= every ingested label".
func VerifC12_UpdateMax() {
	c := vArbitraryCounters()
	d := c.d
	label := vh.U64("label")
	changed, err := d.updateMaxLabel(c.v1, label)
	vh.Assert(err == nil, "updateMaxLabel succeeds on a working store")
	vh.Assert(d.MaxLabel[c.v1] >= label && d.MaxLabel[c.v1] >= c.m1, "version maximum covers the ingested label and never decreases")
	vh.Assert(d.MaxRepoLabel >= d.MaxLabel[c.v1] && d.MaxRepoLabel >= c.repoMax, "repo-wide maximum dominates and never decreases")
	vh.Assert(changed == (label > c.m1), "changed reported iff the maximum grew")
	d2 := vReload(c.s, d.InstanceID())
	vh.Assert(d2.MaxRepoLabel == d.MaxRepoLabel && d2.MaxLabel[c.v1] == d.MaxLabel[c.v1], "reload rebuilds the same maxima")
	if c.next == 0 {
		lbl, err := d.newLabel(c.v1)
		vh.Assert(err != nil || lbl > label, "a label allocated after ingest exceeds the ingested label")
	}
	vh.Reach("end")
}
