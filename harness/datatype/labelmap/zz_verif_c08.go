//go:build verif

package labelmap

import (
	"github.com/janelia-flyem/dvid/dvid"
	"github.com/janelia-flyem/dvid/zzverif/vh"
)

// VerifC08_Mapping: the versioned supervoxel->body mapping list.  m existing (version,label) entries for distinct
// versions, then one more setMapping at version W (possibly one of the existing versions).  Afterwards the list
// decodes to the old entries with W's entry set, entries of other versions untouched, and value() resolves to the
// entry of the version farthest from the root among the queried ancestry.
// Param 0: existing entries (0..3); Param 1: 1 = skip the resolution part.  Version ids and labels are kept below 2^14 (<= 2 varint bytes) - stated bound.
func VerifC08_Mapping() {
	m := vh.Param(0)
	const lim = 1 << 14
	vs := make([]dvid.VersionID, m)
	ls := make([]uint64, m)
	var vm vmap
	for i := 0; i < m; i++ {
		vs[i] = dvid.VersionID(vh.U32("version"))
		ls[i] = vh.U64("label")
		vh.Assume(vs[i] < lim && ls[i] < lim)
		for j := 0; j < i; j++ {
			vh.Assume(vs[i] != vs[j])
		}
		vm = vm.modify(vs[i], ls[i], false)
	}
	w, nl := dvid.VersionID(vh.U32("setVersion")), vh.U64("setLabel")
	vh.Assume(w < lim && nl < lim)
	out := vm.modify(w, nl, true)
	got := out.decodeMappings()
	replaced := false
	for i := 0; i < m; i++ {
		if vs[i] == w {
			replaced = true
		} else {
			l, ok := got[vs[i]]
			vh.Assert(ok && l == ls[i], "mappings recorded at other versions are untouched")
		}
	}
	l, ok := got[w]
	vh.Assert(ok && l == nl, "the mapping at the written version is the new label")
	want := m + 1
	if replaced {
		want = m
	}
	vh.Assert(len(got) == want, "exactly one entry per version")

	if vh.Param(1) == 1 {
		vh.Reach("end")
		return // decode-level check only (keeps the 3-entry instance affordable)
	}
	// resolution: ancestry of three symbolic versions, nearest first
	anc := []dvid.VersionID{dvid.VersionID(vh.U32("a0")), dvid.VersionID(vh.U32("a1")), dvid.VersionID(vh.U32("a2"))}
	vh.Assume(anc[0] != anc[1] && anc[1] != anc[2] && anc[0] != anc[2])
	dist := getDistFromRoot(anc)
	label, present := out.value(dist)
	// reference: first ancestor (nearest) that has an entry
	var wantLabel uint64
	wantPresent := false
	for _, a := range anc {
		if !wantPresent {
			if e, ok := got[a]; ok {
				wantLabel, wantPresent = e, true
			}
		}
	}
	vh.Assert(present == wantPresent && (!present || label == wantLabel), "value() resolves to the nearest ancestor's mapping and ignores versions outside the ancestry")
	vh.Reach("end")
}
