//go:build verif

package labelmap

import (
	"github.com/janelia-flyem/dvid/datastore"
	"github.com/janelia-flyem/dvid/dvid"
	"github.com/janelia-flyem/dvid/zzverif/vh"
	"github.com/janelia-flyem/dvid/zzverif/vstore"
)

// VerifC08_Mapping: the versioned supervoxel->body mapping list.  m existing (version,label) entries for distinct
// versions, then one more setMapping at version W (possibly one of the existing versions).  Afterwards the list
// decodes to the old entries with W's entry set, entries of other versions untouched, and value() resolves to the
// entry of the version farthest from the root among the queried ancestry.
// Param 0: existing entries (0..3); Param 1: 1 = skip the resolution part.  Version ids and labels are kept below 2^14 (<= 2 varint bytes) - stated bound.
func VerifC08_Mapping() {
	m := vh.Param(0)
	const lim = 1 << 14
	vs := make([]dvid.VersionID, m)
	ls := make([]uint64, m)
	var vm vmap
	for i := 0; i < m; i++ {
		vs[i] = dvid.VersionID(vh.U32("version"))
		ls[i] = vh.U64("label")
		vh.Assume(vs[i] < lim && ls[i] < lim)
		for j := 0; j < i; j++ {
			vh.Assume(vs[i] != vs[j])
		}
		vm = vm.modify(vs[i], ls[i], false)
	}
	w, nl := dvid.VersionID(vh.U32("setVersion")), vh.U64("setLabel")
	vh.Assume(w < lim && nl < lim)
	out := vm.modify(w, nl, true)
	got := out.decodeMappings()
	replaced := false
	for i := 0; i < m; i++ {
		if vs[i] == w {
			replaced = true
		} else {
			l, ok := got[vs[i]]
			vh.Assert(ok && l == ls[i], "mappings recorded at other versions are untouched")
		}
	}
	l, ok := got[w]
	vh.Assert(ok && l == nl, "the mapping at the written version is the new label")
	want := m + 1
	if replaced {
		want = m
	}
	vh.Assert(len(got) == want, "exactly one entry per version")

	if vh.Param(1) == 1 {
		vh.Reach("end")
		return // decode-level check only (keeps the 3-entry instance affordable)
	}
	// resolution: ancestry of three symbolic versions, nearest first
	anc := []dvid.VersionID{dvid.VersionID(vh.U32("a0")), dvid.VersionID(vh.U32("a1")), dvid.VersionID(vh.U32("a2"))}
	vh.Assume(anc[0] != anc[1] && anc[1] != anc[2] && anc[0] != anc[2])
	dist := getDistFromRoot(anc)
	label, present := out.value(dist)
	// reference: first ancestor (nearest) that has an entry
	var wantLabel uint64
	wantPresent := false
	for _, a := range anc {
		if !wantPresent {
			if e, ok := got[a]; ok {
				wantLabel, wantPresent = e, true
			}
		}
	}
	vh.Assert(present == wantPresent && (!present || label == wantLabel), "value() resolves to the nearest ancestor's mapping and ignores versions outside the ancestry")
	vh.Reach("end")
}

// VerifC08_VersionCache: the per-version mapping cache: after the cache has been initialised from a leaf (as at
// start-up) and after mappings were recorded at some versions, every version resolves a supervoxel to the mapping
// recorded at itself or its nearest first-parent ancestor - never to one recorded at a descendant or a sibling.
// Params: DAG nodes, max parents, initialise from the last node first (1) or query cold (0).
func VerifC08_VersionCache() {
	n, maxPar, warm := vh.Param(0), vh.Param(1), vh.Param(2)
	vids, _ := datastore.VerifChooseDAG(n, maxPar)
	for i := 1; i <= n; i++ {
		vh.Assume(vids[i] < 128) // one-byte varints keep the encoded mapping list small (stated bound)
	}
	d := vNewData(vstore.New(), 1)
	vc := newVCache(4)
	sv := vh.U64("supervoxel")
	has := make([]bool, n+1)
	lbl := make([]uint64, n+1)
	for i := 1; i <= n; i++ {
		if vh.Choice("mappedHere", 2) == 1 {
			has[i] = true
			lbl[i] = vh.U64("body")
			vh.Assume(lbl[i] < 128)
			vc.setMapping(vids[i], sv, lbl[i])
		}
	}
	if warm == 1 {
		vh.Assert(vc.initToVersion(d, vids[n], false) == nil, "cache initialises from the leaf")
	}
	q := 1 + vh.Choice("query", n)
	dist := vc.getMappedVersionsDist(vids[q])
	got, present := vc.mapLabel(sv, dist)
	// reference: walk the first-parent ancestry of q (what GetAncestry returns) and take the first version with a mapping
	anc, err := datastore.GetAncestry(vids[q])
	vh.Assert(err == nil, "ancestry available")
	var want uint64
	wantPresent := false
	for _, a := range anc {
		if wantPresent {
			break
		}
		for i := 1; i <= n; i++ {
			if vids[i] == a && has[i] {
				want, wantPresent = lbl[i], true
			}
		}
	}
	vh.Assert(present == wantPresent && (!present || got == want), "a version resolves to its own or its nearest ancestor's mapping, never a descendant's or sibling's")
	vh.Reach("end")
}
