//go:build verif

package labelmap

import (
	"bytes"
	"encoding/json"
	"io/ioutil"

	"github.com/janelia-flyem/dvid/datastore"
	"github.com/janelia-flyem/dvid/datatype/common/labels"
	"github.com/janelia-flyem/dvid/dvid"
	"github.com/janelia-flyem/dvid/storage/filelog"
	"github.com/janelia-flyem/dvid/zzverif/vh"
	"github.com/janelia-flyem/dvid/zzverif/vstore"
)

// VerifC08_Chained: chained proofreading on one body - the real CleaveLabel followed by the real MergeLabels (and the
// reverse order), on supervoxels that include the one sharing the body's own id.  After every acknowledged request
// the supervoxel -> body mapping and the body indices agree: every supervoxel listed in a body's index resolves to
// that body (point lookups and mapped reads use the mapping, sizes and sparse volumes use the index), no supervoxel is
// in two indices, and the voxel total is preserved.
// Supervoxel voxel counts are symbolic (1..4096 each).  Params: number of requests (2..3).  Choices: which supervoxel is cleaved, what is merged.
func VerifC08_Chained() {
	nOps := vh.Param(0)
	s := vstore.New()
	uuid, v := datastore.VerifInstallRootRepo(s, 1)
	d := vNewData(s, dvid.InstanceID(3))
	d.Data.Data.SetDataUUID("11111111111111111111111111111111")
	d.Data.Data.SetName("labels")
	d.Data.Data.SetLogStore(filelog.VerifNewLogs(vh.TempDir()))
	datastore.VerifAddData(uuid, d)
	live := newVCache(4)
	iMap.Lock()
	if iMap.maps == nil {
		iMap.maps = make(map[dvid.UUID]*VCache)
	}
	iMap.maps[d.DataUUID()] = live
	iMap.Unlock()
	vh.Assert(live.initToVersion(d, v, false) == nil, "mapping cache initialised")

	bc := dvid.ChunkPoint3d{1, 2, 3}
	n10, n11, n20 := vh.U32("voxels10"), vh.U32("voxels11"), vh.U32("voxels20")
	vh.Assume(n10 > 0 && n11 > 0 && n20 > 0 && n10 <= 4096 && n11 <= 4096 && n20 <= 4096)
	VerifPutIndex(d, v, 10, bc, map[uint64]uint32{10: n10})
	VerifPutIndex(d, v, 11, bc, map[uint64]uint32{11: n11})
	VerifPutIndex(d, v, 20, bc, map[uint64]uint32{20: n20})
	info := dvid.ModInfo{User: "u", App: "a", Time: "t"}
	_, err := d.MergeLabels(v, labels.MergeOp{Target: 10, Merged: labels.NewSet(11)}, info)
	vh.Assert(err == nil, "setup merge")

	ctx := datastore.NewVersionedCtx(d, v)
	bodies := []uint64{10, 11, 20}
	check := func() {
		seen := map[uint64]bool{}
		var total uint64
		for _, b := range bodies {
			idx, err := getLabelIndex(ctx, b)
			vh.Assert(err == nil, "index readable")
			if idx == nil {
				continue
			}
			total += idx.NumVoxels()
			for sv := range idx.GetSupervoxels() {
				vh.Assert(!seen[sv], "no supervoxel is listed in two body indices")
				seen[sv] = true
				mapped, _ := live.MappedLabel(v, sv)
				vh.Assert(mapped == b, "a supervoxel listed in a body's index resolves to that body in the mapping")
			}
		}
		vh.Assert(total == uint64(n10)+uint64(n11)+uint64(n20), "the voxel total over all bodies is preserved")
		vh.Assert(seen[10] && seen[11] && seen[20], "every supervoxel belongs to some body")
	}
	var last uint64 // body created by the most recent cleave
	for op := 0; op < nOps; op++ {
		switch vh.Choice("op", 2) {
		case 0: // cleave one supervoxel off body 10 (refused when it would empty the body or the supervoxel is elsewhere)
			sv := []uint64{10, 11}[vh.Choice("cleave", 2)]
			js, _ := json.Marshal([]uint64{sv})
			cl, _, err := d.CleaveLabel(v, 10, info, ioutil.NopCloser(bytes.NewReader(js)))
			if err == nil {
				last = cl
				bodies = append(bodies, cl)
			}
		default: // merge: the last cleaved body back into 10, or body 20 into 10
			m := uint64(20)
			if last != 0 && vh.Choice("mergeback", 2) == 1 {
				m = last
			}
			d.MergeLabels(v, labels.MergeOp{Target: 10, Merged: labels.NewSet(m)}, info)
		}
		check()
	}
	vh.Reach("end")
}
