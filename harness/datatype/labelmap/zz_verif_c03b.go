//go:build verif

package labelmap

import (
	"github.com/janelia-flyem/dvid/datastore"
	"github.com/janelia-flyem/dvid/datatype/imageblk"
	"github.com/janelia-flyem/dvid/dvid"
	"github.com/janelia-flyem/dvid/zzverif/vh"
)

// VerifC03_Settings: the settings of a label volume survive the metadata round trip a restart performs: the instance
// is written by the real GobEncode chain (labelmap.Data -> imageblk.Data -> datastore.Data, Properties as gob
// transmits them) and read back by the real GobDecode chain; every setting the instance reports - name, ids, UUIDs,
// compression, checksum, versioned flag, tags, syncs, block size, voxel size and units, background, indexing and
// down-sampling levels - is the same afterwards.  Setting values are symbolic.
func VerifC03_Settings() {
	base := datastore.VerifNewData(dvid.InstanceName(vh.Str("name", 2)), dvid.InstanceID(vh.U32("id")), vh.Bool("versioned"))
	base.SetDataUUID(dvid.UUID(vh.Str("dataUUID", 2)))
	base.SetRootUUID(dvid.UUID(vh.Str("rootUUID", 2)))
	base.SetTags(map[string]string{"type": vh.Str("tag", 1)})
	base.SetSync(dvid.UUIDSet{dvid.UUID(vh.Str("sync", 2)): struct{}{}})
	datastore.VerifSetCompression(base, []dvid.CompressionFormat{dvid.Uncompressed, dvid.LZ4, dvid.Gzip}[vh.Choice("compression", 3)])
	d := &Data{Data: &imageblk.Data{Data: base}}
	d.Properties.BlockSize = dvid.Point3d{vh.I32("bx"), vh.I32("by"), vh.I32("bz")}
	d.Properties.VoxelSize = dvid.NdFloat32{8, 8, 8}
	d.Properties.VoxelUnits = dvid.NdString{vh.Str("units", 2), "nanometers", "nanometers"}
	d.Properties.Background = vh.U8("background")
	d.Properties.Interpolable = vh.Bool("interpolable")
	d.Properties.ScaleLevel = int(vh.U8("scaleLevel"))
	d.IndexedLabels = vh.Bool("indexed")
	d.MaxDownresLevel = vh.U8("maxDownres")
	vh.Assume(d.MaxDownresLevel < 16)

	ser, err := dvid.Serialize(d, dvid.Compression{}, dvid.NoChecksum)
	vh.Assert(err == nil, "the instance serialises")
	back := new(Data)
	vh.Assert(dvid.Deserialize(ser, back) == nil, "the instance deserialises")

	vh.Assert(back.DataName() == d.DataName() && back.InstanceID() == d.InstanceID() && back.DataUUID() == d.DataUUID() && back.RootUUID() == d.RootUUID(), "name, instance id, data UUID and root UUID survive")
	vh.Assert(back.Versioned() == d.Versioned() && back.Compression() == d.Compression() && back.Checksum() == d.Checksum(), "versioned flag, compression and checksum survive")
	vh.Assert(len(back.Tags()) == 1 && back.Tags()["type"] == d.Tags()["type"], "tags survive")
	vh.Assert(len(back.SyncedData()) == 1, "syncs survive")
	for u := range d.SyncedData() {
		_, ok := back.SyncedData()[u]
		vh.Assert(ok, "syncs survive")
	}
	bs, ok := back.Properties.BlockSize.(dvid.Point3d)
	vh.Assert(ok && bs == d.Properties.BlockSize.(dvid.Point3d), "block size survives")
	vh.Assert(len(back.Properties.VoxelUnits) == 3 && back.Properties.VoxelUnits[0] == d.Properties.VoxelUnits[0] && len(back.Properties.VoxelSize) == 3, "voxel size and units survive")
	vh.Assert(back.Properties.Background == d.Properties.Background && back.Properties.Interpolable == d.Properties.Interpolable && back.Properties.ScaleLevel == d.Properties.ScaleLevel, "background, interpolation flag and scale level survive")
	vh.Assert(back.IndexedLabels == d.IndexedLabels && back.MaxDownresLevel == d.MaxDownresLevel, "indexing and down-sampling settings survive")
	vh.Assert(len(back.updates) == int(back.MaxDownresLevel)+1, "per-level update counters are sized for the restored levels")
	vh.Reach("end")
}
