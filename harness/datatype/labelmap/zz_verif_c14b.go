//go:build verif

package labelmap

import (
	"github.com/janelia-flyem/dvid/datastore"
	"github.com/janelia-flyem/dvid/datatype/common/downres"
	"github.com/janelia-flyem/dvid/datatype/common/labels"
	"github.com/janelia-flyem/dvid/dvid"
	"github.com/janelia-flyem/dvid/zzverif/vh"
	"github.com/janelia-flyem/dvid/zzverif/vstore"
)

const vBS14 = 16

// vLevelsCurrent: every level 1..maxLevel holds, at the voxel lying over the first voxel of hi-res block c, the label la
// (the vote over a solid region of la); read through the real block storage code.
func vLevelsCurrent(d *Data, v dvid.VersionID, c dvid.ChunkPoint3d, maxLevel int, la uint64) bool {
	for n := 1; n <= maxLevel; n++ {
		var bc dvid.ChunkPoint3d
		var local dvid.Point3d
		for a := 0; a < 3; a++ {
			g := (c[a] * vBS14) >> uint(n) // global voxel coordinate at level n (arithmetic shift = floor)
			bc[a] = g >> 4
			local[a] = g & (vBS14 - 1)
		}
		blk, err := d.getSupervoxelBlock(v, bc, uint8(n))
		if err != nil || blk == nil {
			return false
		}
		if blk.Value(local) != la {
			return false
		}
	}
	return true
}

// vObserved wraps the data instance handed to downres.Mutation: before and after every per-level store it plays a client
// that asks whether the volume is idle - these are exactly the points between which Execute changes the busy flags.
type vObserved struct {
	*Data
	v        dvid.VersionID
	cs       []dvid.ChunkPoint3d
	ls       []uint64
	maxLevel int
	calls    []uint8
}

func (o *vObserved) current() bool {
	for i := range o.cs {
		if !vLevelsCurrent(o.Data, o.v, o.cs[i], o.maxLevel, o.ls[i]) {
			return false
		}
	}
	return true
}

func (o *vObserved) observe() {
	if !o.Data.AnyScaleUpdating() {
		vh.Assert(o.current(), "when the volume reports itself idle every lower-resolution level is up to date")
	}
}

func (o *vObserved) StoreDownres(v dvid.VersionID, hiresScale uint8, hires downres.BlockMap) (downres.BlockMap, error) {
	o.observe()
	o.calls = append(o.calls, hiresScale)
	bm, err := o.Data.StoreDownres(v, hiresScale, hires)
	o.observe()
	return bm, err
}

// VerifC14_Pipeline: the real multi-scale update (downres.NewMutation / BlockMutated / Execute -> labelmap
// StoreDownres with its worker goroutines, octant gathering, block storage code) over the model store, with a client
// asking for the busy status before and after every per-level store (the points between which the status changes):
// whenever the volume reports itself idle (AnyScaleUpdating() == false, what BlockOnUpdating waits for) every level
// 1..MaxDownresLevel already holds the down-sampled data; after Execute returns the volume is idle, every level was
// computed once from the level below, and all levels are current.
// Params: MaxDownresLevel (1..3), hi-res block coordinate index, second mutated block (0 none, 1 the x-neighbour in the
// same or the next low-res block, 2 a distant block), 1 = a level-1 block with a symbolic label is already stored.
func VerifC14_Pipeline() {
	maxLevel, ci, second, prior := vh.Param(0), vh.Param(1), vh.Param(2), vh.Param(3) == 1
	s := vstore.New()
	_, v := datastore.VerifInstallRootRepo(s, 1)
	d := vNewData(s, dvid.InstanceID(3))
	size := dvid.Point3d{vBS14, vBS14, vBS14}
	d.Data.Properties.BlockSize = size
	d.MaxDownresLevel = uint8(maxLevel)
	d.updates = make([]uint32, d.MaxDownresLevel+1)
	coords := []dvid.ChunkPoint3d{{1, 1, 1}, {0, 0, 0}, {-1, 2, -3}, {3, -2, 5}}
	c := coords[ci%len(coords)]
	o := &vObserved{Data: d, v: v, maxLevel: maxLevel}
	o.cs = append(o.cs, c)
	o.ls = append(o.ls, vh.U64("label"))
	switch second {
	case 1:
		o.cs = append(o.cs, dvid.ChunkPoint3d{c[0] + 1, c[1], c[2]})
		o.ls = append(o.ls, vh.U64("label"))
	case 2:
		o.cs = append(o.cs, dvid.ChunkPoint3d{c[0] - 7, c[1] + 9, c[2]})
		o.ls = append(o.ls, vh.U64("label"))
	}
	for _, l := range o.ls {
		vh.Assume(l != 0)
	}
	ctx := datastore.NewVersionedCtx(d, v)
	lc := dvid.ChunkPoint3d{c[0] >> 1, c[1] >> 1, c[2] >> 1}
	lp := uint64(0)
	if prior {
		lp = vh.U64("priorLabel")
		ser, _ := labels.MakeSolidBlock(lp, size).MarshalBinary()
		val, err := dvid.SerializeData(ser, d.Compression(), d.Checksum())
		vh.Assert(err == nil && s.Put(ctx, NewBlockTKeyByCoord(1, lc.ToIZYXString()), val) == nil, "prior level-1 block stored")
	}

	m := downres.NewMutation(o, v, 7)
	for i := range o.cs {
		vh.Assert(m.BlockMutated(o.cs[i].ToIZYXString(), labels.MakeSolidBlock(o.ls[i], size)) == nil, "block registered")
	}
	o.observe()
	err := m.Execute()
	vh.Quiesce()
	vh.Assert(err == nil, "the multi-scale update succeeds")
	vh.Assert(len(o.calls) == maxLevel, "every level is computed exactly once")
	for i, sc := range o.calls {
		vh.Assert(int(sc) == i, "levels are computed in order, each from the level below")
	}
	vh.Assert(!d.AnyScaleUpdating(), "the volume is idle after the update")
	for n := 0; n <= maxLevel; n++ {
		vh.Assert(!d.ScaleUpdating(uint8(n)), "no level is left marked as updating")
	}
	vh.Assert(o.current(), "every level up to the configured maximum holds the down-sampled data")
	// a level-1 voxel under an octant nobody touched keeps what was stored before (the prior label, or background)
	if second != 1 {
		blk, err := d.getSupervoxelBlock(v, lc, 1)
		vh.Assert(err == nil && blk != nil, "level-1 block readable")
		var p dvid.Point3d
		for a := 0; a < 3; a++ {
			p[a] = (1 - (c[a] & 1)) * (vBS14 / 2) // the octant diagonally opposite the mutated one
		}
		vh.Assert(blk.Value(p) == lp, "level-1 voxels under an untouched octant keep their stored value")
	}
	vh.Reach("end")
}
