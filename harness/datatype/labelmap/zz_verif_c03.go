//go:build verif

package labelmap

import (
	"bytes"
	"encoding/json"
	"io/ioutil"

	"github.com/janelia-flyem/dvid/datastore"
	"github.com/janelia-flyem/dvid/datatype/common/labels"
	"github.com/janelia-flyem/dvid/dvid"
	"github.com/janelia-flyem/dvid/storage/filelog"
	"github.com/janelia-flyem/dvid/zzverif/vh"
	"github.com/janelia-flyem/dvid/zzverif/vstore"
)

// VerifC03_MappingLog: the supervoxel -> body mapping rebuilt at start-up from the mutation log answers exactly as the
// live mapping it replaces.  A short sequence of acknowledged body merges and cleaves (the real MergeLabels /
// CleaveLabel, which update the in-memory mapping and append to the real file log over the model file system); then a
// restart: a fresh mapping cache replays the log (the real StreamAll / loadVersionMapping); every supervoxel resolves
// to the same body before and after, and the label counters persisted with the indices reload to the same values.
// Params: number of requests, first request kind + 1 (0 any).
func VerifC03_MappingLog() {
	nOps, firstOp := vh.Param(0), vh.Param(1)
	s := vstore.New()
	uuid, v := datastore.VerifInstallRootRepo(s, 1)
	d := vNewData(s, dvid.InstanceID(3))
	d.Data.Data.SetDataUUID("11111111111111111111111111111111")
	d.Data.Data.SetName("labels")
	d.Data.Data.SetLogStore(filelog.VerifNewLogs(vh.TempDir()))
	datastore.VerifAddData(uuid, d)
	live := newVCache(4)
	iMap.Lock()
	if iMap.maps == nil {
		iMap.maps = make(map[dvid.UUID]*VCache)
	}
	iMap.maps[d.DataUUID()] = live
	iMap.Unlock()
	vh.Assert(live.initToVersion(d, v, false) == nil, "mapping cache initialised")

	// bodies 10 {10, 11}, 20 {20}, 30 {30, 31}: supervoxels 11 and 31 were merged in earlier (logged like any merge)
	bc := dvid.ChunkPoint3d{1, 2, 3}
	VerifPutIndex(d, v, 10, bc, map[uint64]uint32{10: 5})
	VerifPutIndex(d, v, 11, bc, map[uint64]uint32{11: 6})
	VerifPutIndex(d, v, 20, bc, map[uint64]uint32{20: 7})
	VerifPutIndex(d, v, 30, bc, map[uint64]uint32{30: 8})
	VerifPutIndex(d, v, 31, bc, map[uint64]uint32{31: 9})
	info := dvid.ModInfo{User: "u", App: "a", Time: "t"}
	_, err := d.MergeLabels(v, labels.MergeOp{Target: 10, Merged: labels.NewSet(11)}, info)
	vh.Assert(err == nil, "setup merge")
	_, err = d.MergeLabels(v, labels.MergeOp{Target: 30, Merged: labels.NewSet(31)}, info)
	vh.Assert(err == nil, "setup merge")

	var created []uint64
	for op := 0; op < nOps; op++ {
		kind := firstOp - 1
		if op > 0 || firstOp == 0 {
			kind = vh.Choice("op", 3)
		}
		switch kind {
		case 0: // merge one body into another (refused requests change nothing and are fine)
			pair := [][2]uint64{{10, 20}, {20, 10}, {10, 30}, {30, 20}}[vh.Choice("pair", 4)]
			d.MergeLabels(v, labels.MergeOp{Target: pair[0], Merged: labels.NewSet(pair[1])}, info)
		case 1: // cleave a merged-in supervoxel off its body
			c := [][2]uint64{{10, 11}, {30, 31}, {10, 20}}[vh.Choice("cleave", 3)]
			js, _ := json.Marshal([]uint64{c[1]})
			cl, _, err := d.CleaveLabel(v, c[0], info, ioutil.NopCloser(bytes.NewReader(js)))
			if err == nil {
				created = append(created, cl)
			}
		default: // renumber a body
			d.RenumberLabels(v, []uint64{20, 30}[vh.Choice("renumber", 2)], 40, info)
		}
	}

	// restart: a fresh cache is filled from the log
	reloaded := newVCache(4)
	vh.Assert(reloaded.initToVersion(d, v, true) == nil, "the mapping reloads from the log")
	vh.Quiesce()
	svs := []uint64{10, 11, 20, 30, 31, 40}
	svs = append(svs, created...)
	for _, sv := range svs {
		a, okA := live.MappedLabel(v, sv)
		b, okB := reloaded.MappedLabel(v, sv)
		vh.Assert(okA == okB && a == b, "every supervoxel resolves to the same body after the restart")
	}
	vh.Reach("end")
}
