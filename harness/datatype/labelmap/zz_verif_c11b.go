//go:build verif

package labelmap

import (
	"github.com/janelia-flyem/dvid/datastore"
	"github.com/janelia-flyem/dvid/datatype/common/labels"
	"github.com/janelia-flyem/dvid/datatype/common/proto"
	"github.com/janelia-flyem/dvid/dvid"
	"github.com/janelia-flyem/dvid/zzverif/vh"
	"github.com/janelia-flyem/dvid/zzverif/vstore"
)

func vSV(idx *labels.Index, bk uint64, sv uint64) (uint32, bool) {
	if idx == nil || idx.Blocks == nil {
		return 0, false
	}
	svc := idx.Blocks[bk]
	if svc == nil || svc.Counts == nil {
		return 0, false
	}
	c, ok := svc.Counts[sv]
	return c, ok
}

// VerifC11_IndexOps: two body-index mutations of one body processed concurrently (every interleaving of their lock
// and store operations with at most k preemptions) through the real cleaveIndex / ChangeLabelIndex, the real label
// index storage code (protobuf box, LZ4 model, model store): the stored indices end as some sequential order leaves
// them - no acknowledged cleave or block change is lost and voxel counts are conserved.
// Params: preemption bound; pair (0: cleave sv 11 || cleave sv 12 off body 10, 1: block change || block change on
// body 10, 2: cleave || block change).
func VerifC11_IndexOps() {
	k, pair := vh.Param(0), vh.Param(1)
	s := vstore.New()
	_, v := datastore.VerifInstallRootRepo(s, 1)
	d := vNewData(s, dvid.InstanceID(3))
	const body, svA, svB = uint64(10), uint64(11), uint64(12)
	const cleaved1, cleaved2 = uint64(100), uint64(101)
	bk := labels.EncodeBlockIndex(1, 2, 3)
	bk2 := labels.EncodeBlockIndex(2, 2, 3)
	c0, cA, cB := vh.U32("n10"), vh.U32("n11"), vh.U32("n12")
	vh.Assume(c0 > 0 && cA > 0 && cB > 0 && c0 < 1<<20 && cA < 1<<20 && cB < 1<<20)
	idx := new(labels.Index)
	idx.Label = body
	idx.Blocks = map[uint64]*proto.SVCount{bk: {Counts: map[uint64]uint32{body: c0, svA: cA, svB: cB}}}
	vh.Assert(putCachedLabelIndex(d, v, idx) == nil, "body index stored")
	info := dvid.ModInfo{User: "u", App: "a", Time: "t"}
	izyx := dvid.ChunkPoint3d{1, 2, 3}.ToIZYXString()
	izyx2 := dvid.ChunkPoint3d{2, 2, 3}.ToIZYXString()
	dA, dB := int32(vh.U8("deltaA"))+1, int32(vh.U8("deltaB"))+1

	var e1, e2 error
	vh.Schedule(k)
	switch pair {
	case 0:
		go func() {
			_, _, e1 = d.cleaveIndex(v, labels.CleaveOp{MutID: 5, Target: body, CleavedLabel: cleaved1, CleavedSupervoxels: []uint64{svA}}, info)
		}()
		go func() {
			_, _, e2 = d.cleaveIndex(v, labels.CleaveOp{MutID: 6, Target: body, CleavedLabel: cleaved2, CleavedSupervoxels: []uint64{svB}}, info)
		}()
	case 1:
		go func() { e1 = ChangeLabelIndex(d, v, body, labels.SupervoxelChanges{body: {izyx: dA}}) }()
		go func() { e2 = ChangeLabelIndex(d, v, body, labels.SupervoxelChanges{svA: {izyx2: dB}}) }()
	default:
		go func() {
			_, _, e1 = d.cleaveIndex(v, labels.CleaveOp{MutID: 5, Target: body, CleavedLabel: cleaved1, CleavedSupervoxels: []uint64{svA}}, info)
		}()
		go func() { e2 = ChangeLabelIndex(d, v, body, labels.SupervoxelChanges{body: {izyx: dA}}) }()
	}
	vh.Quiesce()
	vh.Assert(e1 == nil && e2 == nil, "both requests acknowledged")

	ctx := datastore.NewVersionedCtx(d, v)
	got, err := getLabelIndex(ctx, body)
	vh.Assert(err == nil && got != nil, "body index readable")
	switch pair {
	case 0:
		i1, err1 := getLabelIndex(ctx, cleaved1)
		i2, err2 := getLabelIndex(ctx, cleaved2)
		vh.Assert(err1 == nil && err2 == nil && i1 != nil && i2 != nil, "both cleaved bodies exist")
		n, ok := vSV(got, bk, body)
		_, hasA := vSV(got, bk, svA)
		_, hasB := vSV(got, bk, svB)
		vh.Assert(ok && n == c0 && !hasA && !hasB, "the body keeps its own supervoxel and neither cleaved one (no cleave is lost)")
		nA, okA := vSV(i1, bk, svA)
		nB, okB := vSV(i2, bk, svB)
		vh.Assert(okA && nA == cA && okB && nB == cB, "each cleaved body holds its supervoxel with the same voxel count")
	case 1:
		n, ok := vSV(got, bk, body)
		vh.Assert(ok && n == c0+uint32(dA), "the first block change is in the stored index")
		nA, okA := vSV(got, bk2, svA)
		vh.Assert(okA && nA == uint32(dB), "the second block change is in the stored index")
	default:
		i1, err1 := getLabelIndex(ctx, cleaved1)
		vh.Assert(err1 == nil && i1 != nil, "the cleaved body exists")
		n, ok := vSV(got, bk, body)
		_, hasA := vSV(got, bk, svA)
		vh.Assert(ok && n == c0+uint32(dA) && !hasA, "the block change and the cleave are both in the body's stored index")
	}
	vh.Reach("end")
}
