//go:build verif

package labelmap

import (
	"github.com/janelia-flyem/dvid/datastore"
	"github.com/janelia-flyem/dvid/datatype/common/labels"
	"github.com/janelia-flyem/dvid/datatype/common/proto"
	"github.com/janelia-flyem/dvid/dvid"
	"github.com/janelia-flyem/dvid/zzverif/vh"
	"github.com/janelia-flyem/dvid/zzverif/vstore"
)

// VerifNewLabelmap builds a labelmap instance with 16^3 blocks over the model store, registered with the installed
// repo under its data UUID, with an initialised (empty) mapping cache for version v - for harnesses in packages that
// sync with a label volume.
func VerifNewLabelmap(s *vstore.Store, id dvid.InstanceID, rootUUID dvid.UUID, v dvid.VersionID, dataUUID dvid.UUID) *Data {
	d := vNewData(s, id)
	d.Data.Properties.BlockSize = dvid.Point3d{16, 16, 16}
	d.Data.Data.SetDataUUID(dataUUID)
	d.Data.Data.SetName("labels")
	datastore.VerifAddData(rootUUID, d)
	vc := newVCache(4)
	iMap.Lock()
	if iMap.maps == nil {
		iMap.maps = make(map[dvid.UUID]*VCache)
	}
	iMap.maps[dataUUID] = vc
	iMap.Unlock()
	vh.Assert(vc.initToVersion(d, v, false) == nil, "mapping cache initialised")
	return d
}

// VerifPutBlock stores a hi-res label block the way the ingest path serialises it.
func VerifPutBlock(d *Data, s *vstore.Store, v dvid.VersionID, bcoord dvid.ChunkPoint3d, blk *labels.Block) {
	ser, err := blk.MarshalBinary()
	vh.Assert(err == nil, "block marshals")
	val, err := dvid.SerializeData(ser, d.Compression(), d.Checksum())
	vh.Assert(err == nil, "block serialises")
	ctx := datastore.NewVersionedCtx(d, v)
	vh.Assert(s.Put(ctx, NewBlockTKeyByCoord(0, bcoord.ToIZYXString()), val) == nil, "block stored")
	d.updateBlockMaxLabel(v, blk) // as the ingest path does: new bodies get labels above every ingested one
}

// VerifSetMapping records supervoxel -> body in the mapping cache at version v (as a past merge did).
func VerifSetMapping(d *Data, v dvid.VersionID, supervoxel, body uint64) {
	iMap.RLock()
	vc := iMap.maps[d.DataUUID()]
	iMap.RUnlock()
	vc.setMapping(v, supervoxel, body)
}

// VerifPutIndex stores a body's label index: one block with the given supervoxel voxel counts.
func VerifPutIndex(d *Data, v dvid.VersionID, body uint64, bcoord dvid.ChunkPoint3d, counts map[uint64]uint32) {
	idx := new(labels.Index)
	idx.Label = body
	idx.Blocks = map[uint64]*proto.SVCount{labels.EncodeBlockIndex(bcoord[0], bcoord[1], bcoord[2]): {Counts: counts}}
	vh.Assert(putCachedLabelIndex(d, v, idx) == nil, "body index stored")
}
