//go:build verif

package labelmap

import (
	"github.com/janelia-flyem/dvid/datatype/common/downres"
	"github.com/janelia-flyem/dvid/datatype/common/labels"
	"github.com/janelia-flyem/dvid/dvid"
	"github.com/janelia-flyem/dvid/zzverif/vh"
	"github.com/janelia-flyem/dvid/zzverif/vstore"
)

// VerifC14_HiresChanges: grouping changed blocks into the octants of their lower-resolution parent, for all int32
// block coordinates (negative ones included): parent = floor(coord/2), octant index = parity bits.
func VerifC14_HiresChanges() {
	d := vNewData(vstore.New(), 1)
	c := dvid.ChunkPoint3d{vh.I32("x"), vh.I32("y"), vh.I32("z")}
	blk := labels.MakeSolidBlock(vh.U64("label"), dvid.Point3d{16, 16, 16})
	hires := downres.BlockMap{c.ToIZYXString(): blk}
	octs, err := d.getHiresChanges(hires)
	vh.Assert(err == nil && len(octs) == 1, "one changed block yields one parent entry")
	parent := dvid.ChunkPoint3d{c[0] >> 1, c[1] >> 1, c[2] >> 1} // arithmetic shift = floor division by 2
	oct, found := octs[parent.ToIZYXString()]
	vh.Assert(found, "the parent is the block at floor(coord/2)")
	idx := int(c[0]&1) + int(c[1]&1)<<1 + int(c[2]&1)<<2
	for i := 0; i < 8; i++ {
		vh.Assert((oct[i] == blk) == (i == idx), "the block is filed under the octant given by its coordinate parities")
	}
	vh.Reach("end")
}
