//go:build verif

package labelmap

import (
	"bytes"
	"compress/gzip"
	"encoding/binary"
	"io/ioutil"

	"github.com/janelia-flyem/dvid/datastore"
	"github.com/janelia-flyem/dvid/datatype/common/labels"
	"github.com/janelia-flyem/dvid/dvid"
	"github.com/janelia-flyem/dvid/zzverif/vh"
	"github.com/janelia-flyem/dvid/zzverif/vstore"
)

func vStreamBlock(bx, by, bz int32, blk *labels.Block) []byte {
	ser, err := blk.MarshalBinary()
	vh.Assert(err == nil, "block marshals")
	var gz bytes.Buffer
	zw := gzip.NewWriter(&gz)
	zw.Write(ser)
	zw.Close()
	hdr := make([]byte, 16)
	binary.LittleEndian.PutUint32(hdr[0:], uint32(bx))
	binary.LittleEndian.PutUint32(hdr[4:], uint32(by))
	binary.LittleEndian.PutUint32(hdr[8:], uint32(bz))
	binary.LittleEndian.PutUint32(hdr[12:], uint32(gz.Len()))
	return append(hdr, gz.Bytes()...)
}

// VerifC20_BlockStream: a POST of a block stream through the real storeBlocks (stream framing, gzip, block parser,
// storage, index aggregation and its goroutines) over the model store.  A well-formed stream is stored and
// acknowledged; a stream with a complete block followed by a truncated header, a truncated payload, a payload that
// is not a gzip stream, or a zero-length block is answered with an error, nothing panics in any goroutine, and a
// block the stream did not name reads back as before.
// Params: tail of the stream after the first complete block (0 a second complete block, 1 half a header, 2 a header
// announcing more bytes than follow, 3 eight symbolic non-gzip bytes, 4 a zero-length block), indexing (0/1).
func VerifC20_BlockStream() {
	tail, indexing := vh.Param(0), vh.Param(1) == 1
	s := vstore.New()
	uuid, v := datastore.VerifInstallRootRepo(s, 1)
	d := vNewData(s, dvid.InstanceID(3))
	d.Data.Properties.BlockSize = dvid.Point3d{16, 16, 16}
	d.Data.Data.SetDataUUID("11111111111111111111111111111111")
	d.Data.Data.SetName("labels")
	datastore.VerifSetCompression(d.Data.Data, dvid.Gzip)
	d.IndexedLabels = true
	d.updates = make([]uint32, 1)
	datastore.VerifAddData(uuid, d)
	vc := newVCache(4)
	iMap.Lock()
	if iMap.maps == nil {
		iMap.maps = make(map[dvid.UUID]*VCache)
	}
	iMap.maps[d.DataUUID()] = vc
	iMap.Unlock()
	vh.Assert(vc.initToVersion(d, v, false) == nil, "mapping cache initialised")
	size := dvid.Point3d{16, 16, 16}
	la, lb := vh.U64("labelA"), vh.U64("labelB")
	vh.Assume(la != 0 && lb != 0 && la != lb)

	// a bystander block stored earlier
	ctx := datastore.NewVersionedCtx(d, v)
	VerifPutBlock(d, s, v, dvid.ChunkPoint3d{9, 9, 9}, labels.MakeSolidBlock(5, size))
	before, _ := s.Get(ctx, NewBlockTKeyByCoord(0, dvid.ChunkPoint3d{9, 9, 9}.ToIZYXString()))

	stream := vStreamBlock(1, 2, 3, labels.MakeSolidBlock(la, size))
	switch tail {
	case 0:
		stream = append(stream, vStreamBlock(2, 2, 3, labels.MakeSolidBlock(lb, size))...)
	case 1:
		stream = append(stream, 1, 0, 0, 0, 2, 0, 0, 0)
	case 2:
		next := vStreamBlock(2, 2, 3, labels.MakeSolidBlock(lb, size))
		stream = append(stream, next[:len(next)-3]...)
	case 3:
		hdr := make([]byte, 16)
		binary.LittleEndian.PutUint32(hdr[0:], 2)
		binary.LittleEndian.PutUint32(hdr[12:], 8)
		stream = append(append(stream, hdr...), vh.Bytes("garbage", 8)...)
	default:
		stream = append(stream, make([]byte, 16)...)
	}
	err := d.storeBlocks(ctx, ioutil.NopCloser(bytes.NewReader(stream)), 0, false, "blocks", indexing)
	vh.Quiesce()
	if tail == 0 {
		vh.Assert(err == nil, "a well-formed stream is acknowledged")
		b2, e2 := d.getSupervoxelBlock(v, dvid.ChunkPoint3d{2, 2, 3}, 0)
		vh.Assert(e2 == nil && b2.Value(dvid.Point3d{3, 4, 5}) == lb, "the second block is stored")
	} else if tail != 3 {
		vh.Assert(err != nil, "a malformed stream is answered with an error")
	}
	if err == nil || tail != 3 {
		b1, e1 := d.getSupervoxelBlock(v, dvid.ChunkPoint3d{1, 2, 3}, 0)
		vh.Assert(e1 == nil && b1.Value(dvid.Point3d{3, 4, 5}) == la, "a complete block received before the defect is stored as sent")
	}
	after, _ := s.Get(ctx, NewBlockTKeyByCoord(0, dvid.ChunkPoint3d{9, 9, 9}.ToIZYXString()))
	vh.Assert(bytes.Equal(before, after), "a block the stream did not name reads back as before")
	vh.Reach("end")
}
