//go:build verif

package labelmap

import (
	"github.com/janelia-flyem/dvid/datastore"
	"github.com/janelia-flyem/dvid/dvid"
	"github.com/janelia-flyem/dvid/zzverif/vh"
	"github.com/janelia-flyem/dvid/zzverif/vstore"
)

// VerifC14_PutLabels: one voxel write through the real PutLabels (size and alignment checks, extents, mutation id,
// per-block goroutines, block encoding and storage, index aggregation, multi-scale update) over the model store: a
// 16^3 block at a symbolic-label two-region volume.  Afterwards the stored hi-res block decodes to the posted
// voxels, the level-1 block holds the vote, both bodies' indices count their voxels, and the volume is idle.
// A body shorter or longer than the geometry demands is refused and stores nothing (param 1 = byte delta).
// Params: block x coordinate index, length delta in bytes (0, -8, +8).
func VerifC14_PutLabels() {
	ci, delta := vh.Param(0), vh.Param(1)
	s := vstore.New()
	uuid, v := datastore.VerifInstallRootRepo(s, 1)
	d := vNewData(s, dvid.InstanceID(3))
	d.Data.Properties.BlockSize = dvid.Point3d{16, 16, 16}
	d.Data.Data.SetDataUUID("11111111111111111111111111111111")
	d.Data.Data.SetName("labels")
	d.IndexedLabels = true
	d.MaxDownresLevel = 1
	d.updates = make([]uint32, 2)
	datastore.VerifAddData(uuid, d)
	vc := newVCache(4)
	iMap.Lock()
	if iMap.maps == nil {
		iMap.maps = make(map[dvid.UUID]*VCache)
	}
	iMap.maps[d.DataUUID()] = vc
	iMap.Unlock()
	vh.Assert(vc.initToVersion(d, v, false) == nil, "mapping cache initialised")

	bx := []int32{1, 0, -1, 5}[ci%4]
	la, lb := vh.U64("labelA"), vh.U64("labelB")
	vh.Assume(la != 0 && lb != 0 && la != lb)
	n := 16 * 16 * 16 * 8
	data := make([]byte, n+delta)
	for i := 0; i+8 <= len(data); i += 8 {
		l := la
		if (i/8)%16 >= 8 {
			l = lb
		}
		for b := 0; b < 8; b++ {
			data[i+b] = byte(l >> (8 * uint(b)))
		}
	}
	subvol := dvid.NewSubvolume(dvid.Point3d{bx * 16, 0, 0}, dvid.Point3d{16, 16, 16})
	err := d.PutLabels(v, subvol, data, "", false)
	vh.Quiesce()
	bc := dvid.ChunkPoint3d{bx, 0, 0}
	if delta != 0 {
		vh.Assert(err != nil, "a body whose length does not match the geometry is refused")
		ctx := datastore.NewVersionedCtx(d, v)
		val, _ := s.Get(ctx, NewBlockTKeyByCoord(0, bc.ToIZYXString()))
		vh.Assert(val == nil, "a refused write stores nothing")
		vh.Reach("end")
		return
	}
	vh.Assert(err == nil, "the write is acknowledged")
	blk, err := d.getSupervoxelBlock(v, bc, 0)
	vh.Assert(err == nil && blk != nil, "hi-res block readable")
	for _, p := range []dvid.Point3d{{0, 0, 0}, {7, 15, 15}, {8, 0, 0}, {15, 3, 9}} {
		want := la
		if p[0] >= 8 {
			want = lb
		}
		vh.Assert(blk.Value(p) == want, "the stored block decodes to the posted voxels")
	}
	vh.Assert(!d.AnyScaleUpdating(), "the volume is idle after the acknowledged write")
	lc := dvid.ChunkPoint3d{bx >> 1, 0, 0}
	lo, err := d.getSupervoxelBlock(v, lc, 1)
	vh.Assert(err == nil && lo != nil, "level-1 block readable")
	ox := (bx & 1) * 8
	vh.Assert(lo.Value(dvid.Point3d{ox + 0, 0, 0}) == la && lo.Value(dvid.Point3d{ox + 3, 7, 7}) == la && lo.Value(dvid.Point3d{ox + 4, 0, 0}) == lb && lo.Value(dvid.Point3d{ox + 7, 2, 5}) == lb,
		"level-1 voxels equal the vote over the 2x2x2 voxels beneath them")
	ctx := datastore.NewVersionedCtx(d, v)
	for _, l := range []uint64{la, lb} {
		idx, err := getLabelIndex(ctx, l)
		vh.Assert(err == nil && idx != nil, "body index exists")
		vh.Assert(idx.NumVoxels() == 2048, "the body's index counts exactly its voxels")
	}
	vh.Reach("end")
}
