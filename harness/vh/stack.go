package vh

import (
	"runtime"
	"strings"
)

// stackFuncs lists the functions on the panicking goroutine's stack (innermost first).
func stackFuncs() string {
	pcs := make([]uintptr, 64)
	n := runtime.Callers(3, pcs)
	frames := runtime.CallersFrames(pcs[:n])
	var out []string
	for {
		fr, more := frames.Next()
		if fr.Function != "" && !strings.HasPrefix(fr.Function, "runtime.") {
			out = append(out, fr.Function)
		}
		if !more || len(out) > 12 {
			break
		}
	}
	return strings.Join(out, " < ")
}
