// Package vh is the harness API of the /verif symbolic engine ("gosym").
//
// Under the engine every function here is an intrinsic: the nondeterministic ones
// return fresh SMT variables, Assume/Assert become solver queries.  Compiled natively
// (this file), the same calls read a recorded vector (env VERIF_REPLAY = path of a JSON
// file), which is how a solver model is replayed against the real build.
//
// This package is injected by overlay as github.com/janelia-flyem/dvid/zzverif/vh and is
// never written into /repo.
package vh

import (
	"runtime"
	"time"
	"encoding/hex"
	"encoding/json"
	"fmt"
	"os"
	"strconv"
	"strings"
)

type Vector struct {
	Harness string            `json:"harness"`
	Params  []int             `json:"params"`
	Inputs  map[string]string `json:"inputs"`
}

var (
	cur      *Vector
	counts   map[string]int
	Observed []string
	Reached  []string
	freshSeq int
)

// Load installs a replay vector (used by the native replay test).
func Load(v *Vector) {
	cur = v
	counts = map[string]int{}
	Observed = nil
	Reached = nil
	freshSeq = 0
}

func LoadFile(path string) (*Vector, error) {
	data, err := os.ReadFile(path)
	if err != nil {
		return nil, err
	}
	v := new(Vector)
	if err := json.Unmarshal(data, v); err != nil {
		return nil, err
	}
	return v, nil
}

func key(name string) string {
	if counts == nil {
		counts = map[string]int{}
	}
	n := counts[name]
	counts[name] = n + 1
	if n == 0 {
		return name
	}
	return name + "#" + strconv.Itoa(n)
}

func scalar(name string) uint64 {
	k := key(name)
	if cur == nil {
		return 0
	}
	s, ok := cur.Inputs[k]
	if !ok {
		return 0
	}
	v, err := strconv.ParseUint(s, 10, 64)
	if err != nil {
		panic("VERIF-VECTOR: bad scalar " + k + "=" + s)
	}
	return v
}

func U8(name string) uint8   { return uint8(scalar(name)) }
func U16(name string) uint16 { return uint16(scalar(name)) }
func U32(name string) uint32 { return uint32(scalar(name)) }
func U64(name string) uint64 { return scalar(name) }
func I8(name string) int8    { return int8(scalar(name)) }
func I16(name string) int16  { return int16(scalar(name)) }
func I32(name string) int32  { return int32(scalar(name)) }
func I64(name string) int64  { return int64(scalar(name)) }
func Int(name string) int    { return int(scalar(name)) }
func Bool(name string) bool  { return scalar(name)&1 == 1 }

// Bytes returns n nondeterministic bytes (n concrete).
func Bytes(name string, n int) []byte {
	k := key(name)
	out := make([]byte, n)
	if cur != nil {
		if s, ok := cur.Inputs[k]; ok {
			b, err := hex.DecodeString(strings.TrimPrefix(s, "x"))
			if err != nil {
				panic("VERIF-VECTOR: bad bytes " + k)
			}
			copy(out, b)
		}
	}
	return out
}

// Str returns a nondeterministic string of n bytes.
func Str(name string, n int) string { return string(Bytes(name, n)) }

// Choice returns a nondeterministic value in [0,n); the engine explores every value on its own path.
func Choice(name string, n int) int {
	v := int(scalar(name))
	if v < 0 || v >= n {
		panic("VERIF-ASSUME: choice out of range")
	}
	return v
}

var params []int

// Param returns the i-th concrete shape parameter given by the driver (0 if absent).
func Param(i int) int {
	if cur != nil && i < len(cur.Params) {
		return cur.Params[i]
	}
	if i < len(params) {
		return params[i]
	}
	return 0
}

// Assume restricts the inputs considered.
func Assume(c bool) {
	if !c {
		panic("VERIF-ASSUME: assumption false on replay vector")
	}
}

// Assert states the property.
func Assert(c bool, label string) {
	if !c {
		panic("VERIF-ASSERT: " + label)
	}
}

// Reach marks a point that at least one path must reach (vacuity guard).
func Reach(tag string) { Reached = append(Reached, tag) }

// Observe records a concrete value for the differential self-check.
func Observe(name string, v uint64) {
	Observed = append(Observed, fmt.Sprintf("%s=%d", name, v))
}

// ObserveBytes records bytes for the differential self-check.
func ObserveBytes(name string, b []byte) {
	for i, x := range b {
		Observed = append(Observed, fmt.Sprintf("%s[%d]=%d", name, i, x))
	}
}

// Try runs f and reports whether it panicked (a VERIF-* panic is passed on).
func Try(f func()) (panicked bool) {
	defer func() {
		if r := recover(); r != nil {
			if s, ok := r.(string); ok && strings.HasPrefix(s, "VERIF-") {
				panic(r)
			}
			panicked = true
		}
	}()
	f()
	return false
}

// MapOrderAll asks the engine to explore every iteration order of maps ranged over from now on.
func MapOrderAll() {}

// MapOrderDefault returns to insertion order.
func MapOrderDefault() {}

// Unwind sets the per-activation loop bound used by the engine.
func Unwind(n int) {}

// Abstract replaces the named function (ssa full name) by its documented contract for the rest of the path (engine only).
func Abstract(name string) {}

// MakeBound sets the largest symbolic allocation length the engine follows (longer ones are cut and counted).
func MakeBound(n int) {}

// GoInline lets the engine run `go f()` statements as plain calls (only for bodies whose effects are order-independent).
func GoInline() {}

// TempDir returns a scratch directory (the engine's model file system needs none and returns a fixed name).
func TempDir() string {
	d, err := os.MkdirTemp("", "verif-replay-")
	if err != nil {
		panic("VERIF-VECTOR: cannot create temp dir: " + err.Error())
	}
	return d
}

// TornWrite runs f, of whose file output to filename only the first budget bytes reach the disk (the process dies
// while writing).  Engine: model file system with a byte budget.  Natively: the file is truncated afterwards.
func TornWrite(filename string, budget int, f func()) {
	var pre int64
	if st, err := os.Stat(filename); err == nil {
		pre = st.Size()
	}
	f()
	if st, err := os.Stat(filename); err == nil && st.Size() > pre+int64(budget) {
		if err := os.Truncate(filename, pre+int64(budget)); err != nil {
			panic("VERIF-VECTOR: truncate failed: " + err.Error())
		}
	}
}

// FileBudget: only the next n bytes written to files reach the disk (the engine's model file system; natively the
// replay harness uses a real temporary directory and truncates the file itself, see FileBudgetNative).
func FileBudget(n int) { fileBudget = n }

var fileBudget = -1

// FileBudgetValue returns the budget set by FileBudget (native side, for truncation after the writes).
func FileBudgetValue() int { return fileBudget }

// Schedule switches the engine to schedule exploration: goroutines may be preempted before every synchronisation
// operation, at most k times per path; every choice of who runs next is explored.  No effect natively.
func Schedule(k int) {}

// Quiesce lets all other goroutines run until they end or block for good (engine); natively it yields for a while.
func Quiesce() {
	for i := 0; i < 200; i++ {
		runtime.Gosched()
	}
	time.Sleep(20 * time.Millisecond)
}

// Fresh returns a string distinct from every other Fresh string.
func Fresh(prefix string) string {
	freshSeq++
	return fmt.Sprintf("%s%04d", prefix, freshSeq)
}

// CrashAfter declares a crash point over the model store/file writes: the engine makes it a symbolic
// count in [0,max]; write number k (1-based) takes effect iff k <= CrashAfter.  Natively the value comes from the vector.
func CrashAfter(name string, max int) int {
	v := int(scalar(name))
	if v < 0 || v > max {
		panic("VERIF-ASSUME: crash point out of range")
	}
	return v
}

// ---- native replay runner ---------------------------------------------------------------

type tlog interface {
	Logf(format string, args ...interface{})
}

// RunReplay runs every vector listed in the file named by env VERIF_REPLAY_LIST whose harness is in hs.
// Output lines (stdout):  VERIF-RESULT <vector path> <ok|assert|panic|assume> <detail>
//                         VERIF-OBS <vector path> <name=value;...>
func RunReplay(hs map[string]func()) {
	list := os.Getenv("VERIF_REPLAY_LIST")
	if list == "" {
		return
	}
	data, err := os.ReadFile(list)
	if err != nil {
		fmt.Printf("VERIF-ERROR cannot read list: %v\n", err)
		return
	}
	repeat := 1
	if r, err := strconv.Atoi(os.Getenv("VERIF_REPEAT")); err == nil && r > 1 {
		repeat = r
	}
	for _, path := range strings.Fields(string(data)) {
		v, err := LoadFile(path)
		if err != nil {
			fmt.Printf("VERIF-ERROR %s: %v\n", path, err)
			continue
		}
		short := v.Harness
		if i := strings.LastIndex(short, "."); i >= 0 {
			short = short[i+1:]
		}
		f, ok := hs[short]
		if !ok {
			continue
		}
		status, detail := "ok", ""
		for k := 0; k < repeat && status == "ok"; k++ {
			status, detail = runOne(v, f)
		}
		fmt.Printf("VERIF-RESULT %s %s %s\n", path, status, strings.ReplaceAll(detail, "\n", " | "))
		fmt.Printf("VERIF-OBS %s %s\n", path, strings.Join(Observed, ";"))
	}
}

func runOne(v *Vector, f func()) (status, detail string) {
	Load(v)
	defer func() {
		if r := recover(); r != nil {
			s := fmt.Sprint(r)
			switch {
			case strings.HasPrefix(s, "VERIF-ASSERT: "):
				status, detail = "assert", strings.TrimPrefix(s, "VERIF-ASSERT: ")
			case strings.HasPrefix(s, "VERIF-ASSUME"), strings.HasPrefix(s, "VERIF-VECTOR"):
				status, detail = "assume", s
			default:
				status, detail = "panic", s+" || "+stackFuncs()
			}
		}
	}()
	f()
	return "ok", ""
}
