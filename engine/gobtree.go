package main

import (
	"go/types"
	"strings"
)

// Faithful gob model: a value is encoded as a tree that keeps exactly what encoding/gob transmits - exported fields
// of plain structs, elements of slices / arrays / maps, what pointers and interfaces hold - and, for every type of the
// repository that defines GobEncode / GobDecode, the bytes its real GobEncode produces (themselves made of nested
// boxes), which its real GobDecode consumes on the way back.  What a custom encoder does not write is not persisted.

type gobTree struct {
	kind  byte // b opaque, s struct, l slice, a array, m map, p pointer, n nil, i interface, c custom
	t     types.Type
	val   Value
	kids  []*gobTree
	keys  []Value
	dynT  types.Type
	bytes []*Term
}

// gobCodec: the encode / decode method pair gob would use for a repository type, in gob's order of preference
// (GobEncoder, then encoding.BinaryMarshaler, then encoding.TextMarshaler); "" if the type is encoded structurally.
func (in *Interp) gobCodec(t types.Type) (enc, dec string) {
	named, ok := t.(*types.Named)
	if !ok || named.Obj().Pkg() == nil || !strings.HasPrefix(named.Obj().Pkg().Path(), modPath) {
		return "", ""
	}
	pt := types.NewPointer(named)
	for _, pair := range [][2]string{{"GobEncode", "GobDecode"}, {"MarshalBinary", "UnmarshalBinary"}, {"MarshalText", "UnmarshalText"}} {
		if in.lookupMethodByName(pt, pair[0]) != nil && in.lookupMethodByName(pt, pair[1]) != nil {
			return pair[0], pair[1]
		}
	}
	return "", ""
}

func (in *Interp) gobCustomMethod(t types.Type, name string) bool {
	enc, _ := in.gobCodec(t)
	return enc != ""
}

func (in *Interp) gobBuild(v Value, t types.Type, depth int) *gobTree {
	if depth > 40 {
		in.unsupportedf("gob: value nested too deeply")
	}
	if pt, ok := t.(*types.Pointer); ok && in.gobCustomMethod(pt.Elem(), "GobEncode") {
		p, _ := v.(PtrV)
		if p.N == nil {
			return &gobTree{kind: 'n', t: t}
		}
		return in.gobEncodeCustom(p, pt.Elem())
	}
	if in.gobCustomMethod(t, "GobEncode") {
		return in.gobEncodeCustom(PtrV{N: in.newNode(t, in.cloneValue(v))}, t)
	}
	switch u := t.Underlying().(type) {
	case *types.Pointer:
		p, _ := v.(PtrV)
		if p.N == nil {
			return &gobTree{kind: 'n', t: t}
		}
		return &gobTree{kind: 'p', t: t, kids: []*gobTree{in.gobBuild(in.load(p), u.Elem(), depth+1)}}
	case *types.Struct:
		if named, ok := t.(*types.Named); ok && named.Obj().Pkg() != nil && !strings.HasPrefix(named.Obj().Pkg().Path(), modPath) {
			break // library struct types (time.Time, ...) are kept whole
		}
		sv, ok := v.(*StructV)
		if !ok {
			break
		}
		tr := &gobTree{kind: 's', t: t, kids: make([]*gobTree, u.NumFields())}
		for i := 0; i < u.NumFields(); i++ {
			if u.Field(i).Exported() {
				tr.kids[i] = in.gobBuild(sv.F[i], u.Field(i).Type(), depth+1)
			}
		}
		return tr
	case *types.Slice:
		sv, _ := v.(SliceV)
		if sv.Arr == nil {
			return &gobTree{kind: 'n', t: t}
		}
		if b, ok := u.Elem().Underlying().(*types.Basic); ok && b.Info()&(types.IsInteger|types.IsString|types.IsBoolean|types.IsFloat) != 0 {
			break // slices of scalars: opaque copy
		}
		tr := &gobTree{kind: 'l', t: t}
		for i := 0; i < sv.Len; i++ {
			tr.kids = append(tr.kids, in.gobBuild(in.sliceGet(sv, i), u.Elem(), depth+1))
		}
		return tr
	case *types.Array:
		av, ok := v.(*ArrayV)
		if !ok {
			break
		}
		if b, ok := u.Elem().Underlying().(*types.Basic); ok && b.Info()&(types.IsInteger|types.IsString|types.IsBoolean|types.IsFloat) != 0 {
			break
		}
		tr := &gobTree{kind: 'a', t: t}
		for _, e := range av.E {
			tr.kids = append(tr.kids, in.gobBuild(e, u.Elem(), depth+1))
		}
		return tr
	case *types.Map:
		mo, _ := v.(*MapObj)
		if mo == nil {
			return &gobTree{kind: 'n', t: t}
		}
		tr := &gobTree{kind: 'm', t: t}
		for _, e := range mo.Entries {
			if e.Deleted {
				continue
			}
			tr.keys = append(tr.keys, in.cloneValue(e.K))
			tr.kids = append(tr.kids, in.gobBuild(e.V, u.Elem(), depth+1))
		}
		return tr
	case *types.Interface:
		iv, _ := v.(IfaceV)
		if iv.T == nil {
			return &gobTree{kind: 'n', t: t}
		}
		return &gobTree{kind: 'i', t: t, dynT: iv.T, kids: []*gobTree{in.gobBuild(iv.V, iv.T, depth+1)}}
	}
	saveMemo := in.memo
	in.memo = map[interface{}]interface{}{}
	c := in.cloneValue(v)
	in.memo = saveMemo
	return &gobTree{kind: 'b', t: t, val: c}
}

func (in *Interp) gobEncodeCustom(recv PtrV, elem types.Type) *gobTree {
	encName, _ := in.gobCodec(elem)
	r := in.callMethod(IfaceV{T: types.NewPointer(elem), V: recv}, encName)
	tv, ok := r.(TupleV)
	if !ok || len(tv) != 2 {
		in.unsupportedf("gob: GobEncode of %v returned %T", elem, r)
	}
	if e, _ := tv[1].(IfaceV); e.T != nil {
		in.unsupportedf("gob: GobEncode of %v failed", elem)
	}
	return &gobTree{kind: 'c', t: elem, bytes: in.byteTerms(tv[0])}
}

// gobRestore rebuilds a value of type t from a tree; err is what a custom GobDecode reported.
func (in *Interp) gobRestore(tr *gobTree, t types.Type) (Value, Value) {
	noErr := Value(IfaceV{})
	if tr == nil || tr.kind == 'n' {
		return in.zero(t), noErr
	}
	switch tr.kind {
	case 'c':
		node := in.newNode(tr.t, nil)
		_, decName := in.gobCodec(tr.t)
		r := in.callMethod(IfaceV{T: types.NewPointer(tr.t), V: PtrV{N: node}}, decName, in.byteSliceOf(append([]*Term{}, tr.bytes...)))
		if e, ok := r.(IfaceV); ok && e.T != nil {
			return in.zero(t), e
		}
		if pt, ok := t.Underlying().(*types.Pointer); ok && types.Identical(pt.Elem(), tr.t) {
			return PtrV{N: node}, noErr
		}
		if types.Identical(t, tr.t) {
			return in.loadNode(node), noErr
		}
		in.unsupportedf("gob: %v decoded into %v", tr.t, t)
	case 'p':
		pt, ok := t.Underlying().(*types.Pointer)
		if !ok {
			return in.gobRestore(tr.kids[0], t) // gob flattens pointers
		}
		v, e := in.gobRestore(tr.kids[0], pt.Elem())
		return PtrV{N: in.newNode(pt.Elem(), v)}, e
	case 's':
		if pt, ok := t.Underlying().(*types.Pointer); ok {
			v, e := in.gobRestore(tr, pt.Elem())
			return PtrV{N: in.newNode(pt.Elem(), v)}, e
		}
		st, ok := t.Underlying().(*types.Struct)
		if !ok || st.NumFields() != len(tr.kids) {
			in.unsupportedf("gob: struct %v decoded into %v", tr.t, t)
		}
		out := in.zero(t).(*StructV)
		for i, k := range tr.kids {
			if k != nil {
				v, e := in.gobRestore(k, st.Field(i).Type())
				if ie, _ := e.(IfaceV); ie.T != nil {
					return out, e
				}
				out.F[i] = v
			}
		}
		return out, noErr
	case 'l':
		sl, ok := t.Underlying().(*types.Slice)
		if !ok {
			in.unsupportedf("gob: slice %v decoded into %v", tr.t, t)
		}
		arr := in.newArrayNode(sl.Elem(), len(tr.kids))
		for i, k := range tr.kids {
			v, e := in.gobRestore(k, sl.Elem())
			if ie, _ := e.(IfaceV); ie.T != nil {
				return SliceV{}, e
			}
			in.storeNode(arr.Kids[i], v)
		}
		return SliceV{Arr: arr, Len: len(tr.kids), Cap: len(tr.kids)}, noErr
	case 'a':
		at, ok := t.Underlying().(*types.Array)
		if !ok {
			in.unsupportedf("gob: array %v decoded into %v", tr.t, t)
		}
		out := in.zero(t).(*ArrayV)
		for i, k := range tr.kids {
			if i < len(out.E) {
				v, e := in.gobRestore(k, at.Elem())
				if ie, _ := e.(IfaceV); ie.T != nil {
					return out, e
				}
				out.E[i] = v
			}
		}
		return out, noErr
	case 'm':
		mt, ok := t.Underlying().(*types.Map)
		if !ok {
			in.unsupportedf("gob: map %v decoded into %v", tr.t, t)
		}
		in.nodeSeq++
		mo := &MapObj{KT: mt.Key(), VT: mt.Elem(), id: in.nodeSeq}
		for i, k := range tr.kids {
			v, e := in.gobRestore(k, mt.Elem())
			if ie, _ := e.(IfaceV); ie.T != nil {
				return mo, e
			}
			mo.Entries = append(mo.Entries, &MapEntry{K: in.cloneValue(tr.keys[i]), V: v})
		}
		return mo, noErr
	case 'i':
		v, e := in.gobRestore(tr.kids[0], tr.dynT)
		if _, isIface := t.Underlying().(*types.Interface); isIface {
			return IfaceV{T: tr.dynT, V: v}, e
		}
		return v, e
	}
	saveMemo := in.memo
	in.memo = map[interface{}]interface{}{}
	c := in.cloneValue(tr.val)
	in.memo = saveMemo
	if tr.t != nil && !types.Identical(tr.t.Underlying(), t.Underlying()) {
		if conv, ok := in.jsonConv(c, tr.t, t, nil); ok {
			return conv, noErr
		}
		in.unsupportedf("gob: %v decoded into %v", tr.t, t)
	}
	return c, noErr
}
