package main

// Model file system: file = byte vector, Write appends, a byte budget models a crash that tears the last write
// at any byte (DESIGN.md §2.8).  Only what storage/filelog needs.

import (
	"strings"
	"fmt"
	"go/types"
	"path/filepath"

	"golang.org/x/tools/go/ssa"
)

type fileHandle struct {
	name     string
	readPos  int
	writable bool
}

type modelFS struct {
	files     map[string][]*Term
	budget    int // bytes that still reach the disk; -1 = unlimited
	notExist  Value
	writeOps  int
}

func (in *Interp) fs() *modelFS {
	if in.mfs == nil {
		in.mfs = &modelFS{files: map[string][]*Term{}, budget: -1}
	}
	return in.mfs
}

func registerFiles(m map[string]intrinsicFn) {
	m["path/filepath.Join"] = func(in *Interp, fn *ssa.Function, args []Value) Value {
		s := args[0].(SliceV)
		parts := make([]string, s.Len)
		for i := range parts {
			parts[i] = concStr(in.sliceGet(s, i))
		}
		return in.strConst(filepath.Join(parts...))
	}
	m["os.OpenFile"] = func(in *Interp, fn *ssa.Function, args []Value) Value {
		name := concStr(args[0])
		flag := in.concInt(args[1], "open flag")
		fs := in.fs()
		_, exists := fs.files[name]
		const oCreate = 0x40
		if !exists {
			if flag&oCreate == 0 {
				if fs.notExist == nil {
					fs.notExist = in.newError("open: no such file or directory")
				}
				return TupleV{PtrV{}, fs.notExist}
			}
			fs.files[name] = nil
		}
		in.nodeSeq++
		h := &Node{V: &fileHandle{name: name, writable: flag&3 != 0}, T: types.Typ[types.Int], id: in.nodeSeq}
		return TupleV{PtrV{N: h}, IfaceV{}}
	}
	m["os.IsNotExist"] = func(in *Interp, fn *ssa.Function, args []Value) Value {
		fs := in.fs()
		if fs.notExist == nil {
			return in.tb.Bool(false)
		}
		return in.eqValue(args[0], fs.notExist)
	}
	handle := func(in *Interp, v Value) *fileHandle {
		p, ok := v.(PtrV)
		if !ok || p.N == nil {
			in.obligation(in.tb.Bool(false), "nil pointer dereference (method on nil *os.File)")
			panic(abortPath{"nil file"})
		}
		h, ok := p.N.V.(*fileHandle)
		if !ok {
			in.unsupportedf("os.File not created by the model file system")
		}
		return h
	}
	m["(*os.File).Write"] = func(in *Interp, fn *ssa.Function, args []Value) Value {
		h := handle(in, args[0])
		fs := in.fs()
		bs := in.byteTerms(args[1])
		fs.writeOps++
		n := len(bs)
		if fs.budget >= 0 {
			if n > fs.budget {
				n = fs.budget
			}
			fs.budget -= n
		}
		fs.files[h.name] = append(fs.files[h.name], bs[:n]...)
		// the caller always sees success: a crashed process never looks at the result
		return TupleV{in.tb.Const(64, uint64(len(bs))), IfaceV{}}
	}
	m["(*os.File).Sync"] = func(in *Interp, fn *ssa.Function, args []Value) Value { return IfaceV{} }
	m["(*os.File).Close"] = func(in *Interp, fn *ssa.Function, args []Value) Value { return IfaceV{} }
	readAll := func(in *Interp, fn *ssa.Function, args []Value) Value {
		iv := args[0].(IfaceV)
		if iv.T == nil || !strings.HasSuffix(iv.T.String(), "os.File") {
			return runRealBody{} // readers other than model files: the real io.ReadAll runs
		}
		h := handle(in, iv.V)
		content := in.fs().files[h.name][h.readPos:]
		h.readPos += len(content)
		// io.ReadAll starts with a 512-byte buffer and grows by append: the result has spare capacity holding zeros
		capacity := 512
		for capacity < len(content)+1 {
			capacity += capacity/4 + 512
		}
		arr := in.newArrayNode(types.Typ[types.Uint8], capacity)
		for i, b := range content {
			arr.Kids[i].V = b
		}
		return TupleV{SliceV{Arr: arr, Len: len(content), Cap: capacity}, IfaceV{}}
	}
	m["io/ioutil.ReadAll"] = readAll
	m["io.ReadAll"] = readAll
	m["io/ioutil.ReadFile"] = func(in *Interp, fn *ssa.Function, args []Value) Value {
		name := concStr(args[0])
		fs := in.fs()
		content, ok := fs.files[name]
		if !ok {
			if fs.notExist == nil {
				fs.notExist = in.newError("open: no such file or directory")
			}
			return TupleV{SliceV{}, fs.notExist}
		}
		return TupleV{in.byteSliceOf(append([]*Term{}, content...)), IfaceV{}}
	}
	m["os.ReadFile"] = m["io/ioutil.ReadFile"]
	m[vhPath+"TempDir"] = func(in *Interp, fn *ssa.Function, args []Value) Value { return in.strConst("/vlog") }
	m[vhPath+"TornWrite"] = func(in *Interp, fn *ssa.Function, args []Value) Value {
		fs := in.fs()
		fs.budget = in.concInt(args[1], "TornWrite budget")
		in.invokeFuncV(args[2].(*FuncV), nil)
		fs.budget = -1
		return TupleV{}
	}
	// vh.FileBudget(n): only the next n bytes written to model files reach the disk (crash tears the write)
	m[vhPath+"FileBudget"] = func(in *Interp, fn *ssa.Function, args []Value) Value {
		in.fs().budget = in.concInt(args[0], "FileBudget")
		return TupleV{}
	}
	m[vhPath+"FileLen"] = func(in *Interp, fn *ssa.Function, args []Value) Value {
		return in.tb.Const(64, uint64(len(in.fs().files[concStr(args[0])])))
	}
	_ = fmt.Sprint
}
