package main

// Intrinsics: the vh harness API and environment stubs (each stub's contract is listed in DESIGN.md §2.7
// and echoed into the evidence file).

import (
	"fmt"
	"go/types"
	"strings"

	"golang.org/x/tools/go/ssa"
)

type intrinsicFn func(in *Interp, fn *ssa.Function, args []Value) Value

const vhPath = "github.com/janelia-flyem/dvid/zzverif/vh."

func (in *Interp) inputName(args []Value) string {
	s, ok := args[0].(*StrV).Concrete()
	if !ok {
		panic("vh: input name must be concrete")
	}
	n := in.nameCount[s]
	in.nameCount[s] = n + 1
	if n > 0 {
		s = fmt.Sprintf("%s#%d", s, n)
	}
	return s
}

func vhScalar(w int) intrinsicFn {
	return func(in *Interp, fn *ssa.Function, args []Value) Value {
		name := in.inputName(args)
		t := in.tb.Var(name, w)
		if w == 0 {
			// booleans are carried as 1-bit inputs for uniform model extraction
			bv := in.tb.Var(name, 1)
			in.inputs = append(in.inputs, inputVar{Name: name, Terms: []*Term{bv}, Kind: "u"})
			in.sol.ref(bv)
			return in.tb.Eq(bv, in.tb.Const(1, 1))
		}
		in.inputs = append(in.inputs, inputVar{Name: name, Terms: []*Term{t}, Kind: "u"})
		in.sol.ref(t)
		return t
	}
}

func (in *Interp) symBytes(name string, n int) []*Term {
	ts := make([]*Term, n)
	for i := range ts {
		ts[i] = in.tb.Var(fmt.Sprintf("%s[%d]", name, i), 8)
		in.sol.ref(ts[i])
	}
	in.inputs = append(in.inputs, inputVar{Name: name, Terms: ts, Kind: "b"})
	return ts
}

func concStr(v Value) string {
	s, ok := v.(*StrV).Concrete()
	if !ok {
		panic("expected concrete string")
	}
	return s
}

func baseIntrinsics() map[string]intrinsicFn {
	m := map[string]intrinsicFn{}
	nop := func(in *Interp, fn *ssa.Function, args []Value) Value { return in.zeroResults(fn) }

	// ---- vh ----
	m[vhPath+"U8"] = vhScalar(8)
	m[vhPath+"I8"] = vhScalar(8)
	m[vhPath+"U16"] = vhScalar(16)
	m[vhPath+"I16"] = vhScalar(16)
	m[vhPath+"U32"] = vhScalar(32)
	m[vhPath+"I32"] = vhScalar(32)
	m[vhPath+"U64"] = vhScalar(64)
	m[vhPath+"I64"] = vhScalar(64)
	m[vhPath+"Int"] = vhScalar(64)
	m[vhPath+"Bool"] = vhScalar(0)
	m[vhPath+"Bytes"] = func(in *Interp, fn *ssa.Function, args []Value) Value {
		name := in.inputName(args)
		n := in.concInt(args[1], "Bytes n")
		ts := in.symBytes(name, n)
		arr := in.newArrayNode(types.Typ[types.Uint8], n)
		for i, t := range ts {
			arr.Kids[i].V = t
		}
		return SliceV{Arr: arr, Len: n, Cap: n}
	}
	m[vhPath+"Str"] = func(in *Interp, fn *ssa.Function, args []Value) Value {
		name := in.inputName(args)
		n := in.concInt(args[1], "Str n")
		return &StrV{B: in.symBytes(name, n)}
	}
	m[vhPath+"Choice"] = func(in *Interp, fn *ssa.Function, args []Value) Value {
		name := in.inputName(args)
		n := in.concInt(args[1], "Choice n")
		t := in.tb.Var(name, 64)
		in.inputs = append(in.inputs, inputVar{Name: name, Terms: []*Term{t}, Kind: "u"})
		in.sol.ref(t)
		if n <= 0 {
			panic(abortPath{"empty choice"})
		}
		// t is a fresh unconstrained variable: every value in [0,n) is feasible, no solver query needed
		k := in.choose(n)
		in.assertPC(in.tb.Eq(t, in.tb.Const(64, uint64(k))))
		return in.tb.Const(64, uint64(k))
	}
	m[vhPath+"CrashAfter"] = func(in *Interp, fn *ssa.Function, args []Value) Value {
		name := in.inputName(args)
		n := in.concInt(args[1], "CrashAfter max")
		t := in.tb.Var(name, 64)
		in.inputs = append(in.inputs, inputVar{Name: name, Terms: []*Term{t}, Kind: "u"})
		in.assume(in.tb.Cmp(OpUle, t, in.tb.Const(64, uint64(n))))
		return in.tb.Const(64, in.concretize(t))
	}
	m[vhPath+"Param"] = func(in *Interp, fn *ssa.Function, args []Value) Value {
		i := in.concInt(args[0], "Param i")
		if i < len(in.params) {
			return in.tb.Const(64, uint64(in.params[i]))
		}
		return in.tb.Const(64, 0)
	}
	m[vhPath+"Assume"] = func(in *Interp, fn *ssa.Function, args []Value) Value {
		in.assume(args[0].(*Term))
		return TupleV{}
	}
	m[vhPath+"Assert"] = func(in *Interp, fn *ssa.Function, args []Value) Value {
		c := args[0].(*Term)
		label := concStr(args[1])
		in.sh.stats.add("obligations", 1)
		in.sh.noteAssert(in.harness, label, !c.IsConst())
		if c.IsTrue() {
			in.sh.stats.add("discharged", 1)
			return TupleV{}
		}
		if c.IsFalse() {
			in.recordViolation("assert", label, label)
			panic(abortPath{"assert failed"})
		}
		switch in.sol.CheckWith(in.tb.Not(c)) {
		case Sat:
			in.sol.Push()
			in.sol.Assert(in.tb.Not(c))
			in.sol.Check()
			in.recordViolationFromModel("assert", label, label)
			in.sol.Pop()
		case Unknown:
			in.taint("solver unknown on assertion " + label)
		default:
			in.sh.stats.add("discharged", 1)
			in.sh.sampleObligation(in, label, c)
		}
		in.assume(c)
		return TupleV{}
	}
	m[vhPath+"Reach"] = func(in *Interp, fn *ssa.Function, args []Value) Value {
		in.sh.noteReach(in.harness, concStr(args[0]))
		return TupleV{}
	}
	m[vhPath+"Observe"] = func(in *Interp, fn *ssa.Function, args []Value) Value {
		in.observations = append(in.observations, obsRec{Name: concStr(args[0]), T: args[1].(*Term)})
		return TupleV{}
	}
	m[vhPath+"ObserveBytes"] = func(in *Interp, fn *ssa.Function, args []Value) Value {
		s := args[1].(SliceV)
		name := concStr(args[0])
		for i := 0; i < s.Len; i++ {
			in.observations = append(in.observations, obsRec{Name: fmt.Sprintf("%s[%d]", name, i), T: in.sliceGet(s, i).(*Term)})
		}
		return TupleV{}
	}
	m[vhPath+"Try"] = func(in *Interp, fn *ssa.Function, args []Value) (res Value) {
		f := args[0].(*FuncV)
		in.tryDepth++
		depth, stk := in.callDepth, len(in.stack)
		defer func() {
			in.tryDepth--
			if r := recover(); r != nil {
				if _, ok := r.(*goPanic); ok {
					in.callDepth, in.stack = depth, in.stack[:stk]
					res = in.tb.Bool(true)
					return
				}
				panic(r)
			}
		}()
		in.invokeFuncV(f, nil)
		return in.tb.Bool(false)
	}
	m[vhPath+"MapOrderAll"] = func(in *Interp, fn *ssa.Function, args []Value) Value {
		in.mapOrderAll = true
		return TupleV{}
	}
	m[vhPath+"MapOrderDefault"] = func(in *Interp, fn *ssa.Function, args []Value) Value {
		in.mapOrderAll = false
		return TupleV{}
	}
	m[vhPath+"Unwind"] = func(in *Interp, fn *ssa.Function, args []Value) Value {
		in.unwind = in.concInt(args[0], "Unwind")
		return TupleV{}
	}
	m[vhPath+"Abstract"] = func(in *Interp, fn *ssa.Function, args []Value) Value {
		if in.abstract == nil {
			in.abstract = map[string]bool{}
		}
		in.abstract[concStr(args[0])] = true
		return TupleV{}
	}
	m[vhPath+"MakeBound"] = func(in *Interp, fn *ssa.Function, args []Value) Value {
		in.makeBound = in.concInt(args[0], "MakeBound")
		return TupleV{}
	}
	m[vhPath+"GoInline"] = func(in *Interp, fn *ssa.Function, args []Value) Value {
		in.goInline = true
		return TupleV{}
	}
	m[vhPath+"Fresh"] = func(in *Interp, fn *ssa.Function, args []Value) Value {
		in.freshSeq++
		return in.strConst(fmt.Sprintf("%s%04d", concStr(args[0]), in.freshSeq))
	}

	// ---- logging / diagnostics: no effect ----
	dv := "github.com/janelia-flyem/dvid/dvid."
	for _, n := range []string{"Debugf", "Infof", "Warningf", "Errorf", "Criticalf", "TimeDebugf", "TimeInfof", "TimeWarningf", "TimeErrorf", "TimeCriticalf", "BlockOnActiveCgo", "StartCgo", "StopCgo", "LogImmediately", "SendEmail", "SendEmailToAdmins"} {
		m[dv+n] = nop
	}
	for _, n := range []string{"Debugf", "Infof", "Warningf", "Errorf", "Criticalf", "Shutdown"} {
		m["("+dv+"TimeLog)."+n] = nop
		m["(*"+dv+"TimeLog)."+n] = nop
	}
	// progress statistics of copy/transfer code (time and floating point; no functional effect)
	m["(*github.com/janelia-flyem/dvid/datastore.txStats).addKV"] = nop
	m["(*github.com/janelia-flyem/dvid/datastore.txStats).printStats"] = nop
	m["github.com/dustin/go-humanize.Bytes"] = func(in *Interp, fn *ssa.Function, args []Value) Value { return in.strConst("n B") }
	m["github.com/dustin/go-humanize.Comma"] = func(in *Interp, fn *ssa.Function, args []Value) Value { return in.strConst("n") }
	m[dv+"NewUUID"] = func(in *Interp, fn *ssa.Function, args []Value) Value {
		in.freshSeq++
		return in.strConst(fmt.Sprintf("%032x", 0xf0000000+in.freshSeq))
	}
	m[dv+"NewTimeLog"] = func(in *Interp, fn *ssa.Function, args []Value) Value { return in.zeroResults(fn) }
	for _, n := range []string{"fmt.Printf", "fmt.Println", "fmt.Print", "fmt.Fprintf", "fmt.Fprintln", "fmt.Fprint", "log.Printf", "log.Println", "log.Print",
		"runtime.KeepAlive", "runtime.GC", "runtime.Gosched", "runtime/debug.FreeOSMemory", "runtime.SetFinalizer", "runtime/debug.PrintStack"} {
		m[n] = nop
	}
	// formatted output to a harness counting writer (a harness type named *CountWriter with a Tick method) is
	// abstracted to "one output call": the text is not modelled, the number of calls is (native fmt also issues one
	// Write per call).  Every other writer: formatted output is a no-op, as before.
	for _, n := range []string{"fmt.Fprintf", "fmt.Fprintln", "fmt.Fprint"} {
		m[n] = func(in *Interp, fn *ssa.Function, args []Value) Value {
			if w, ok := args[0].(IfaceV); ok && w.T != nil && strings.HasSuffix(w.T.String(), "CountWriter") {
				in.callMethod(w, "Tick")
			}
			return in.zeroResults(fn)
		}
	}
	// worker pools sized by the CPU count get two workers in the model (enough for any interleaving of two)
	m["runtime.NumCPU"] = func(in *Interp, fn *ssa.Function, args []Value) Value { return in.tb.Const(64, 2) }
	m["runtime/debug.Stack"] = func(in *Interp, fn *ssa.Function, args []Value) Value { return SliceV{} }

	// ---- sync: no-ops in sequential mode ----
	for _, n := range []string{"(*sync.Mutex).Lock", "(*sync.Mutex).Unlock", "(*sync.RWMutex).Lock", "(*sync.RWMutex).Unlock", "(*sync.RWMutex).RLock", "(*sync.RWMutex).RUnlock",
		"(*sync.WaitGroup).Add", "(*sync.WaitGroup).Done", "(*sync.WaitGroup).Wait"} {
		name := n
		m[name] = func(in *Interp, fn *ssa.Function, args []Value) Value {
			if in.pristineMode {
				return TupleV{}
			}
			return in.schedSync(name, args)
		}
	}
	m["(*sync.Once).Do"] = func(in *Interp, fn *ssa.Function, args []Value) Value {
		p := args[0].(PtrV)
		// field 0: done (atomic.Uint32{_ noCopy; v uint32}) ; use the innermost scalar cell
		cell := p.N
		for cell.Kids != nil {
			found := false
			for _, k := range cell.Kids {
				if k.Kids != nil || k.V != nil {
					if _, ok := k.V.(*Term); ok || k.Kids != nil {
						cell = k
						found = true
						break
					}
				}
			}
			if !found {
				break
			}
		}
		if t, ok := cell.V.(*Term); ok && t.IsConst() && t.C == 0 {
			cell.V = in.tb.Const(t.W, 1)
			in.invokeFuncV(args[1].(*FuncV), nil)
		}
		return TupleV{}
	}
	atomicOps(m)

	// ---- time ----
	m["time.Now"] = func(in *Interp, fn *ssa.Function, args []Value) Value { return in.zeroResults(fn) }
	m["time.Since"] = func(in *Interp, fn *ssa.Function, args []Value) Value { return in.tb.Const(64, 0) }
	m["(time.Time).Format"] = func(in *Interp, fn *ssa.Function, args []Value) Value { return in.strConst("2026-01-01T00:00:00Z") }
	m["(time.Time).String"] = func(in *Interp, fn *ssa.Function, args []Value) Value { return in.strConst("2026-01-01T00:00:00Z") }
	m["(time.Time).Unix"] = func(in *Interp, fn *ssa.Function, args []Value) Value { return in.tb.Const(64, 1767225600) }
	m["(time.Time).UnixNano"] = func(in *Interp, fn *ssa.Function, args []Value) Value { return in.tb.Const(64, 1767225600000000000) }
	m["time.Sleep"] = nop

	// ---- bytes / strings kernels implemented in assembly ----
	m["internal/bytealg.Compare"] = func(in *Interp, fn *ssa.Function, args []Value) Value {
		return in.cmp3(in.byteTerms(args[0]), in.byteTerms(args[1]))
	}
	m["bytes.Compare"] = m["internal/bytealg.Compare"]
	m["strings.Compare"] = m["internal/bytealg.Compare"]
	m["bytes.Equal"] = func(in *Interp, fn *ssa.Function, args []Value) Value {
		return in.eqValue(&StrV{B: in.byteTerms(args[0])}, &StrV{B: in.byteTerms(args[1])})
	}
	m["internal/bytealg.Equal"] = m["bytes.Equal"]
	indexByte := func(in *Interp, fn *ssa.Function, args []Value) Value {
		bs := in.byteTerms(args[0])
		c := args[1].(*Term)
		res := in.tb.Const(64, ^uint64(0))
		for i := len(bs) - 1; i >= 0; i-- {
			res = in.tb.Ite(in.tb.Eq(bs[i], c), in.tb.Const(64, uint64(i)), res)
		}
		return res
	}
	m["internal/bytealg.IndexByte"] = indexByte
	m["internal/bytealg.IndexByteString"] = indexByte
	m["bytes.IndexByte"] = indexByte
	m["strings.IndexByte"] = indexByte
	count := func(in *Interp, fn *ssa.Function, args []Value) Value {
		bs := in.byteTerms(args[0])
		c := args[1].(*Term)
		res := in.tb.Const(64, 0)
		for _, b := range bs {
			res = in.tb.Bin(OpAdd, res, in.tb.Ite(in.tb.Eq(b, c), in.tb.Const(64, 1), in.tb.Const(64, 0)))
		}
		return res
	}
	m["internal/bytealg.Count"] = count
	m["internal/bytealg.CountString"] = count
	m["(*strings.Builder).String"] = func(in *Interp, fn *ssa.Function, args []Value) Value {
		p := args[0].(PtrV)
		// struct { addr *Builder; buf []byte }
		buf := p.N.Kids[1].V.(SliceV)
		b := make([]*Term, buf.Len)
		for i := range b {
			b[i] = in.sliceGet(buf, i).(*Term)
		}
		return &StrV{B: b}
	}
	m["(*strings.Builder).copyCheck"] = nop
	m["strings.ToLower"] = func(in *Interp, fn *ssa.Function, args []Value) Value {
		s := args[0].(*StrV)
		if c, ok := s.Concrete(); ok {
			return in.strConst(strings.ToLower(c))
		}
		out := make([]*Term, len(s.B))
		for i, b := range s.B {
			isUp := in.tb.And(in.tb.Cmp(OpUle, in.tb.Const(8, 'A'), b), in.tb.Cmp(OpUle, b, in.tb.Const(8, 'Z')))
			out[i] = in.tb.Ite(isUp, in.tb.Bin(OpAdd, b, in.tb.Const(8, 32)), b)
			in.obligationNote(in.tb.Cmp(OpUlt, b, in.tb.Const(8, 0x80)), "non-ASCII byte in strings.ToLower")
		}
		return &StrV{B: out}
	}

	// ---- fmt ----
	m["fmt.Sprintf"] = func(in *Interp, fn *ssa.Function, args []Value) Value {
		return in.strConst(in.formatf(args[0], args[1]))
	}
	m["fmt.Sprint"] = func(in *Interp, fn *ssa.Function, args []Value) Value {
		return in.strConst(in.formatf(nil, args[0]))
	}
	m["fmt.Sprintln"] = m["fmt.Sprint"]
	m["fmt.Errorf"] = func(in *Interp, fn *ssa.Function, args []Value) Value {
		return in.newError(in.formatf(args[0], args[1]))
	}
	m["reflect.DeepEqual"] = func(in *Interp, fn *ssa.Function, args []Value) Value {
		return in.deepEqual(args[0], args[1])
	}
	return m
}

func (in *Interp) zeroResults(fn *ssa.Function) Value {
	res := fn.Signature.Results()
	switch res.Len() {
	case 0:
		return TupleV{}
	case 1:
		return in.zero(res.At(0).Type())
	}
	return in.zero(res)
}

// newError builds an error value using the real errors.errorString type.
func (in *Interp) newError(msg string) Value {
	ef := in.sh.errorsNew
	if ef == nil {
		in.unsupportedf("errors.New not available")
	}
	return in.callFunction(ef, []Value{in.strConst(msg)}, nil)
}

func (in *Interp) byteTerms(v Value) []*Term {
	switch x := v.(type) {
	case *StrV:
		return x.B
	case SliceV:
		out := make([]*Term, x.Len)
		for i := range out {
			out[i] = in.sliceGet(x, i).(*Term)
		}
		return out
	}
	panic(fmt.Sprintf("byteTerms: %T", v))
}

// formatf renders a format call when everything is concrete; otherwise an opaque fixed string.
func (in *Interp) formatf(format Value, varargs Value) string {
	var goArgs []interface{}
	if s, ok := varargs.(SliceV); ok {
		for i := 0; i < s.Len; i++ {
			g, ok := in.toGo(in.sliceGet(s, i))
			if !ok {
				return "<formatted>"
			}
			goArgs = append(goArgs, g)
		}
	}
	if format == nil {
		return fmt.Sprint(goArgs...)
	}
	f, ok := format.(*StrV).Concrete()
	if !ok {
		return "<formatted>"
	}
	return fmt.Sprintf(f, goArgs...)
}

func (in *Interp) toGo(v Value) (interface{}, bool) {
	iv, ok := v.(IfaceV)
	if !ok {
		return nil, false
	}
	if iv.T == nil {
		return nil, true
	}
	// error / Stringer
	for _, mname := range []string{"Error", "String"} {
		if m := in.lookupMethodByName(iv.T, mname); m != nil && m.Signature.Params().Len() == 0 && m.Signature.Results().Len() == 1 && isString(m.Signature.Results().At(0).Type()) {
			var out interface{}
			okk := false
			func() {
				defer func() {
					if r := recover(); r != nil {
						switch r.(type) {
						case unsupported, *goPanic, abortPath, budgetExceeded:
							return
						}
						panic(r)
					}
				}()
				if in.ex.replaying() {
					// avoid consuming decisions differently between runs: formatting never forks because we only call on concrete receivers
				}
				r := in.callFunction(m, []Value{iv.V}, nil)
				if s, ok := r.(*StrV); ok {
					if c, ok := s.Concrete(); ok {
						out, okk = c, true
					}
				}
			}()
			return out, okk
		}
	}
	switch x := iv.V.(type) {
	case *Term:
		if !x.IsConst() {
			return nil, false
		}
		w, signed, _ := intWidth(iv.T)
		if w == 0 {
			return x.C == 1, true
		}
		if signed {
			return signExt(x.C, w), true
		}
		return x.C, true
	case *StrV:
		c, ok := x.Concrete()
		return c, ok
	case FloatV:
		return x.F, true
	}
	return nil, false
}

func (in *Interp) deepEqual(a, b Value) *Term {
	switch x := a.(type) {
	case IfaceV:
		y, ok := b.(IfaceV)
		if !ok {
			return in.tb.Bool(false)
		}
		if x.T == nil || y.T == nil {
			return in.tb.Bool(x.T == nil && y.T == nil)
		}
		if !types.Identical(x.T, y.T) {
			return in.tb.Bool(false)
		}
		return in.deepEqual(x.V, y.V)
	case SliceV:
		y := b.(SliceV)
		if (x.Arr == nil) != (y.Arr == nil) || x.Len != y.Len {
			return in.tb.Bool(false)
		}
		cs := []*Term{}
		for i := 0; i < x.Len; i++ {
			cs = append(cs, in.deepEqual(in.sliceGet(x, i), in.sliceGet(y, i)))
		}
		return in.tb.And(cs...)
	case *MapObj:
		y := b.(*MapObj)
		if (x == nil) != (y == nil) {
			return in.tb.Bool(false)
		}
		if x == nil {
			return in.tb.Bool(true)
		}
		if x.Len() != y.Len() {
			return in.tb.Bool(false)
		}
		cs := []*Term{}
		for _, e := range x.Entries {
			if e.Deleted {
				continue
			}
			f := in.mapFind(y, e.K)
			if f == nil {
				return in.tb.Bool(false)
			}
			cs = append(cs, in.deepEqual(e.V, f.V))
		}
		return in.tb.And(cs...)
	case PtrV:
		y := b.(PtrV)
		if x.N == nil || y.N == nil {
			return in.tb.Bool(x.N == y.N)
		}
		if x.N == y.N {
			return in.tb.Bool(true)
		}
		return in.deepEqual(in.load(x), in.load(y))
	case *StructV:
		y := b.(*StructV)
		cs := []*Term{}
		for i := range x.F {
			cs = append(cs, in.deepEqual(x.F[i], y.F[i]))
		}
		return in.tb.And(cs...)
	case *ArrayV:
		y := b.(*ArrayV)
		cs := []*Term{}
		for i := range x.E {
			cs = append(cs, in.deepEqual(x.E[i], y.E[i]))
		}
		return in.tb.And(cs...)
	}
	return in.eqValue(a, b)
}

func atomicOps(m map[string]intrinsicFn) {
	for _, ty := range []string{"Int32", "Int64", "Uint32", "Uint64", "Uintptr"} {
		m["sync/atomic.Load"+ty] = func(in *Interp, fn *ssa.Function, args []Value) Value { return in.load(args[0]) }
		m["sync/atomic.Store"+ty] = func(in *Interp, fn *ssa.Function, args []Value) Value {
			in.store(args[0], args[1])
			return TupleV{}
		}
		m["sync/atomic.Add"+ty] = func(in *Interp, fn *ssa.Function, args []Value) Value {
			nv := in.tb.Bin(OpAdd, in.load(args[0]).(*Term), args[1].(*Term))
			in.store(args[0], nv)
			return nv
		}
		m["sync/atomic.Swap"+ty] = func(in *Interp, fn *ssa.Function, args []Value) Value {
			old := in.load(args[0])
			in.store(args[0], args[1])
			return old
		}
		m["sync/atomic.CompareAndSwap"+ty] = func(in *Interp, fn *ssa.Function, args []Value) Value {
			old := in.load(args[0]).(*Term)
			if in.branch(in.tb.Eq(old, args[1].(*Term))) {
				in.store(args[0], args[2])
				return in.tb.Bool(true)
			}
			return in.tb.Bool(false)
		}
	}
	m["sync/atomic.LoadPointer"] = func(in *Interp, fn *ssa.Function, args []Value) Value { return in.load(args[0]) }
	m["sync/atomic.StorePointer"] = func(in *Interp, fn *ssa.Function, args []Value) Value {
		in.store(args[0], args[1])
		return TupleV{}
	}
}
