package main

import (
	"go/types"
	"reflect"
	"strings"
)

// Structural conversion for the JSON box: json.Marshal(x) followed by json.Unmarshal into a value of a *different*
// type goes through the JSON object model — struct fields match by (tagged) name, embedded structs are flattened,
// interfaces and pointers encode what they hold, unknown fields are dropped, missing ones keep the target's value.
// Custom MarshalJSON/UnmarshalJSON methods are bypassed (the box is lossless): stated as an assumption.

type jsonField struct {
	name      string
	path      []int
	typ       types.Type
	omitempty bool
}

func jsonFields(st *types.Struct, prefix []int, out *[]jsonField, depth int) {
	if depth > 4 {
		return
	}
	for i := 0; i < st.NumFields(); i++ {
		f := st.Field(i)
		tag := reflect.StructTag(st.Tag(i)).Get("json")
		if tag == "-" {
			continue
		}
		name, opts, _ := strings.Cut(tag, ",")
		path := append(append([]int{}, prefix...), i)
		if f.Embedded() && name == "" {
			ft := f.Type()
			if p, ok := ft.Underlying().(*types.Pointer); ok {
				ft = p.Elem()
			}
			if es, ok := ft.Underlying().(*types.Struct); ok {
				if _, isPtr := f.Type().Underlying().(*types.Pointer); !isPtr {
					jsonFields(es, path, out, depth+1)
					continue
				}
			}
		}
		if !f.Exported() {
			continue
		}
		if name == "" {
			name = f.Name()
		}
		*out = append(*out, jsonField{name: name, path: path, typ: f.Type(), omitempty: strings.Contains(opts, "omitempty")})
	}
}

func structGet(v Value, path []int) Value {
	for _, i := range path {
		v = v.(*StructV).F[i]
	}
	return v
}

func structSet(v Value, path []int, x Value) {
	for _, i := range path[:len(path)-1] {
		v = v.(*StructV).F[i]
	}
	v.(*StructV).F[path[len(path)-1]] = x
}

// jsonConv converts a boxed value of type st into a value of type dt; cur is the target's present value (or nil).
func (in *Interp) jsonConv(v Value, st, dt types.Type, cur Value) (Value, bool) {
	if types.Identical(st, dt) {
		return v, true
	}
	if _, ok := st.Underlying().(*types.Interface); ok {
		iv, ok := v.(IfaceV)
		if !ok {
			return nil, false
		}
		if iv.T == nil { // null leaves the target as it is
			if cur != nil {
				return cur, true
			}
			return in.zero(dt), true
		}
		return in.jsonConv(iv.V, iv.T, dt, cur)
	}
	if sp, ok := st.Underlying().(*types.Pointer); ok {
		p, ok := v.(PtrV)
		if !ok {
			return nil, false
		}
		if p.N == nil {
			if cur != nil {
				return cur, true
			}
			return in.zero(dt), true
		}
		return in.jsonConv(in.load(p), sp.Elem(), dt, cur)
	}
	switch d := dt.Underlying().(type) {
	case *types.Pointer:
		ev, ok := in.jsonConv(v, st, d.Elem(), nil)
		if !ok {
			return nil, false
		}
		return PtrV{N: in.newNode(d.Elem(), ev)}, true
	case *types.Struct:
		ss, ok := st.Underlying().(*types.Struct)
		if !ok {
			return nil, false
		}
		var sf, df []jsonField
		jsonFields(ss, nil, &sf, 0)
		jsonFields(d, nil, &df, 0)
		out := in.zero(dt)
		if cur != nil {
			out = in.cloneValue(cur)
		}
		for _, f := range df {
			var src *jsonField
			for i := range sf {
				if sf[i].name == f.name {
					src = &sf[i]
					break
				}
			}
			if src == nil {
				for i := range sf {
					if strings.EqualFold(sf[i].name, f.name) {
						src = &sf[i]
						break
					}
				}
			}
			if src == nil {
				continue
			}
			x, ok := in.jsonConv(structGet(v, src.path), src.typ, f.typ, structGet(out, f.path))
			if !ok {
				return nil, false
			}
			structSet(out, f.path, x)
		}
		return out, true
	case *types.Slice, *types.Array:
		var elems []Value
		var set types.Type
		switch s := st.Underlying().(type) {
		case *types.Slice:
			sv := v.(SliceV)
			if sv.Arr == nil {
				if _, isSlice := d.(*types.Slice); isSlice {
					return SliceV{}, true
				}
				return in.zero(dt), true
			}
			for i := 0; i < sv.Len; i++ {
				elems = append(elems, in.sliceGet(sv, i))
			}
			set = s.Elem()
		case *types.Array:
			elems = v.(*ArrayV).E
			set = s.Elem()
		default:
			return nil, false
		}
		if ds, ok := d.(*types.Slice); ok {
			arr := in.newArrayNode(ds.Elem(), len(elems))
			for i, e := range elems {
				x, ok := in.jsonConv(e, set, ds.Elem(), nil)
				if !ok {
					return nil, false
				}
				in.storeNode(arr.Kids[i], x)
			}
			return SliceV{Arr: arr, Len: len(elems), Cap: len(elems)}, true
		}
		da := d.(*types.Array)
		out := in.zero(dt).(*ArrayV)
		for i := 0; i < int(da.Len()) && i < len(elems); i++ {
			x, ok := in.jsonConv(elems[i], set, da.Elem(), nil)
			if !ok {
				return nil, false
			}
			out.E[i] = x
		}
		return out, true
	case *types.Map:
		sm, ok := st.Underlying().(*types.Map)
		if !ok || !types.Identical(sm.Key().Underlying(), d.Key().Underlying()) {
			return nil, false
		}
		mo, _ := v.(*MapObj)
		if mo == nil {
			return (*MapObj)(nil), true
		}
		in.nodeSeq++
		out := &MapObj{KT: d.Key(), VT: d.Elem(), id: in.nodeSeq}
		for _, e := range mo.Entries {
			if e.Deleted {
				continue
			}
			x, ok := in.jsonConv(e.V, sm.Elem(), d.Elem(), nil)
			if !ok {
				return nil, false
			}
			out.Entries = append(out.Entries, &MapEntry{K: e.K, V: x})
		}
		return out, true
	case *types.Basic:
		sb, ok := st.Underlying().(*types.Basic)
		if !ok {
			return nil, false
		}
		if dw, _, ok := intWidth(dt); ok {
			sw, ssigned, ok2 := intWidth(st)
			if !ok2 {
				return nil, false
			}
			t := v.(*Term)
			if sw != dw {
				t = in.tb.Resize(t, dw, ssigned)
			}
			return t, true
		}
		if sb.Info()&types.IsString != 0 && d.Info()&types.IsString != 0 {
			return v, true
		}
		if sb.Info()&types.IsBoolean != 0 && d.Info()&types.IsBoolean != 0 {
			return v, true
		}
		if isFloat(st) && isFloat(dt) {
			return v, true
		}
	}
	return nil, false
}
