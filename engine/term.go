package main

// Terms: bit-vector / boolean expression DAG with constant folding and light
// simplification.  Width W == 0 means Bool; otherwise a bit-vector of W bits (W <= 64).

import (
	"fmt"
	"strings"
)

type Op uint8

const (
	OpConst Op = iota
	OpVar
	OpNot
	OpAnd
	OpOr
	OpEq
	OpIte
	OpAdd
	OpSub
	OpMul
	OpUDiv
	OpSDiv
	OpURem
	OpSRem
	OpBAnd
	OpBOr
	OpBXor
	OpBNot
	OpNeg
	OpShl
	OpLshr
	OpAshr
	OpUlt
	OpUle
	OpSlt
	OpSle
	OpExtract // P1=hi P2=lo
	OpConcat
	OpZext // P1 = extra bits
	OpSext // P1 = extra bits
)

var opNames = map[Op]string{
	OpNot: "not", OpAnd: "and", OpOr: "or", OpEq: "=", OpIte: "ite",
	OpAdd: "bvadd", OpSub: "bvsub", OpMul: "bvmul", OpUDiv: "bvudiv", OpSDiv: "bvsdiv",
	OpURem: "bvurem", OpSRem: "bvsrem", OpBAnd: "bvand", OpBOr: "bvor", OpBXor: "bvxor",
	OpBNot: "bvnot", OpNeg: "bvneg", OpShl: "bvshl", OpLshr: "bvlshr", OpAshr: "bvashr",
	OpUlt: "bvult", OpUle: "bvule", OpSlt: "bvslt", OpSle: "bvsle", OpConcat: "concat",
}

type Term struct {
	Op     Op
	W      int
	Args   []*Term
	C      uint64
	Name   string
	P1, P2 int
	id     int64
}

func (t *Term) IsConst() bool { return t.Op == OpConst }
func (t *Term) IsTrue() bool  { return t.Op == OpConst && t.W == 0 && t.C == 1 }
func (t *Term) IsFalse() bool { return t.Op == OpConst && t.W == 0 && t.C == 0 }

func mask(w int) uint64 {
	if w >= 64 {
		return ^uint64(0)
	}
	return (uint64(1) << uint(w)) - 1
}

func signExt(v uint64, w int) int64 {
	if w >= 64 {
		return int64(v)
	}
	if v&(uint64(1)<<uint(w-1)) != 0 {
		return int64(v | ^mask(w))
	}
	return int64(v)
}

// TB is a per-worker term builder with hash-consing.
type TB struct {
	ktab   map[termKey]*Term
	tab    map[string]*Term
	nextID int64
	varSeq int
}

func NewTB() *TB { return &TB{tab: map[string]*Term{}, ktab: map[termKey]*Term{}} }

func (b *TB) Reset() {
	if len(b.ktab)+len(b.tab) > 2_000_000 {
		b.tab = map[string]*Term{}
		b.ktab = map[termKey]*Term{}
	}
}

type termKey struct {
	op         Op
	w          int
	c          uint64
	p1, p2     int
	name       string
	a0, a1, a2 int64
	n          int
}

func (b *TB) mk(t Term) *Term {
	if len(t.Args) <= 3 {
		k := termKey{op: t.Op, w: t.W, c: t.C, p1: t.P1, p2: t.P2, name: t.Name, n: len(t.Args)}
		if len(t.Args) > 0 {
			k.a0 = t.Args[0].id
		}
		if len(t.Args) > 1 {
			k.a1 = t.Args[1].id
		}
		if len(t.Args) > 2 {
			k.a2 = t.Args[2].id
		}
		if x, ok := b.ktab[k]; ok {
			return x
		}
		b.nextID++
		t.id = b.nextID
		p := &t
		b.ktab[k] = p
		return p
	}
	var sb strings.Builder
	fmt.Fprintf(&sb, "%d.%d.%d.%d.%d.%s", t.Op, t.W, t.C, t.P1, t.P2, t.Name)
	for _, a := range t.Args {
		fmt.Fprintf(&sb, ".%d", a.id)
	}
	k := sb.String()
	if x, ok := b.tab[k]; ok {
		return x
	}
	b.nextID++
	t.id = b.nextID
	p := &t
	b.tab[k] = p
	return p
}

func (b *TB) Const(w int, c uint64) *Term {
	if w == 0 {
		c &= 1
	} else {
		c &= mask(w)
	}
	return b.mk(Term{Op: OpConst, W: w, C: c})
}
func (b *TB) Bool(v bool) *Term {
	if v {
		return b.Const(0, 1)
	}
	return b.Const(0, 0)
}
func (b *TB) Var(name string, w int) *Term { return b.mk(Term{Op: OpVar, W: w, Name: name}) }

func (b *TB) Not(x *Term) *Term {
	if x.IsConst() {
		return b.Bool(x.C == 0)
	}
	if x.Op == OpNot {
		return x.Args[0]
	}
	return b.mk(Term{Op: OpNot, Args: []*Term{x}})
}

func (b *TB) And(xs ...*Term) *Term {
	var out []*Term
	for _, x := range xs {
		if x.IsFalse() {
			return x
		}
		if x.IsTrue() {
			continue
		}
		dup := false
		for _, o := range out {
			if o == x {
				dup = true
			}
		}
		if !dup {
			out = append(out, x)
		}
	}
	if len(out) == 0 {
		return b.Bool(true)
	}
	if len(out) == 1 {
		return out[0]
	}
	return b.mk(Term{Op: OpAnd, Args: out})
}

func (b *TB) Or(xs ...*Term) *Term {
	var out []*Term
	for _, x := range xs {
		if x.IsTrue() {
			return x
		}
		if x.IsFalse() {
			continue
		}
		dup := false
		for _, o := range out {
			if o == x {
				dup = true
			}
		}
		if !dup {
			out = append(out, x)
		}
	}
	if len(out) == 0 {
		return b.Bool(false)
	}
	if len(out) == 1 {
		return out[0]
	}
	return b.mk(Term{Op: OpOr, Args: out})
}

func (b *TB) Implies(a, c *Term) *Term { return b.Or(b.Not(a), c) }

func (b *TB) Eq(x, y *Term) *Term {
	if x.W != y.W {
		panic(fmt.Sprintf("Eq width mismatch %d vs %d", x.W, y.W))
	}
	if x == y {
		return b.Bool(true)
	}
	if x.IsConst() && y.IsConst() {
		return b.Bool(x.C == y.C)
	}
	if x.W == 0 {
		if x.IsConst() {
			if x.C == 1 {
				return y
			}
			return b.Not(y)
		}
		if y.IsConst() {
			if y.C == 1 {
				return x
			}
			return b.Not(x)
		}
	}
	// ite(c,k1,k2) == k  with constants
	if y.IsConst() && x.Op == OpIte && x.Args[1].IsConst() && x.Args[2].IsConst() {
		a, c := x.Args[1].C == y.C, x.Args[2].C == y.C
		switch {
		case a && c:
			return b.Bool(true)
		case a:
			return x.Args[0]
		case c:
			return b.Not(x.Args[0])
		default:
			return b.Bool(false)
		}
	}
	if x.id > y.id {
		x, y = y, x
	}
	return b.mk(Term{Op: OpEq, Args: []*Term{x, y}})
}

func (b *TB) Ne(x, y *Term) *Term { return b.Not(b.Eq(x, y)) }

func (b *TB) Ite(c, x, y *Term) *Term {
	if x.W != y.W {
		panic("Ite width mismatch")
	}
	if c.IsConst() {
		if c.C == 1 {
			return x
		}
		return y
	}
	if x == y {
		return x
	}
	if x.W == 0 {
		if x.IsTrue() && y.IsFalse() {
			return c
		}
		if x.IsFalse() && y.IsTrue() {
			return b.Not(c)
		}
		if x.IsTrue() {
			return b.Or(c, y)
		}
		if x.IsFalse() {
			return b.And(b.Not(c), y)
		}
		if y.IsFalse() {
			return b.And(c, x)
		}
		if y.IsTrue() {
			return b.Or(b.Not(c), x)
		}
	}
	return b.mk(Term{Op: OpIte, W: x.W, Args: []*Term{c, x, y}})
}

func evalBin(op Op, w int, x, y uint64) (uint64, bool) {
	m := mask(w)
	switch op {
	case OpAdd:
		return (x + y) & m, true
	case OpSub:
		return (x - y) & m, true
	case OpMul:
		return (x * y) & m, true
	case OpUDiv:
		if y == 0 {
			return m, true
		}
		return x / y, true
	case OpURem:
		if y == 0 {
			return x, true
		}
		return x % y, true
	case OpSDiv:
		sx, sy := signExt(x, w), signExt(y, w)
		if sy == 0 {
			if sx < 0 {
				return 1, true
			}
			return m, true
		}
		if sy == -1 {
			return uint64(-sx) & m, true
		}
		return uint64(sx/sy) & m, true
	case OpSRem:
		sx, sy := signExt(x, w), signExt(y, w)
		if sy == 0 {
			return x, true
		}
		if sy == -1 {
			return 0, true
		}
		return uint64(sx%sy) & m, true
	case OpBAnd:
		return x & y, true
	case OpBOr:
		return x | y, true
	case OpBXor:
		return x ^ y, true
	case OpShl:
		if y >= uint64(w) {
			return 0, true
		}
		return (x << y) & m, true
	case OpLshr:
		if y >= uint64(w) {
			return 0, true
		}
		return x >> y, true
	case OpAshr:
		sx := signExt(x, w)
		if y >= uint64(w) {
			if sx < 0 {
				return m, true
			}
			return 0, true
		}
		return uint64(sx>>y) & m, true
	}
	return 0, false
}

func evalCmp(op Op, w int, x, y uint64) bool {
	switch op {
	case OpUlt:
		return x < y
	case OpUle:
		return x <= y
	case OpSlt:
		return signExt(x, w) < signExt(y, w)
	case OpSle:
		return signExt(x, w) <= signExt(y, w)
	}
	panic("evalCmp")
}

func (b *TB) Bin(op Op, x, y *Term) *Term {
	if x.W != y.W || x.W == 0 {
		panic(fmt.Sprintf("Bin %v width mismatch %d vs %d", opNames[op], x.W, y.W))
	}
	w := x.W
	if x.IsConst() && y.IsConst() {
		v, _ := evalBin(op, w, x.C, y.C)
		return b.Const(w, v)
	}
	m := mask(w)
	switch op {
	case OpAdd:
		if x.IsConst() && x.C == 0 {
			return y
		}
		if y.IsConst() && y.C == 0 {
			return x
		}
		// (a + c1) + c2
		if y.IsConst() && x.Op == OpAdd && x.Args[1].IsConst() {
			return b.Bin(OpAdd, x.Args[0], b.Const(w, x.Args[1].C+y.C))
		}
		if x.IsConst() {
			x, y = y, x
		}
	case OpSub:
		if y.IsConst() && y.C == 0 {
			return x
		}
		if x == y {
			return b.Const(w, 0)
		}
		if y.IsConst() {
			return b.Bin(OpAdd, x, b.Const(w, -y.C))
		}
	case OpMul:
		if x.IsConst() {
			x, y = y, x
		}
		if y.IsConst() {
			if y.C == 0 {
				return y
			}
			if y.C == 1 {
				return x
			}
		}
	case OpBAnd:
		if x.IsConst() {
			x, y = y, x
		}
		if y.IsConst() {
			if y.C == 0 {
				return y
			}
			if y.C == m {
				return x
			}
			// zext(a) & mask covering a's width
			if x.Op == OpZext {
				iw := x.Args[0].W
				if y.C&mask(iw) == mask(iw) {
					return x
				}
			}
		}
		if x == y {
			return x
		}
	case OpBOr:
		if x.IsConst() {
			x, y = y, x
		}
		if y.IsConst() {
			if y.C == 0 {
				return x
			}
			if y.C == m {
				return y
			}
		}
		if x == y {
			return x
		}
		if r := b.orPieces(x, y); r != nil {
			return r
		}
	case OpBXor:
		if x.IsConst() {
			x, y = y, x
		}
		if y.IsConst() && y.C == 0 {
			return x
		}
		if x == y {
			return b.Const(w, 0)
		}
	case OpShl, OpLshr, OpAshr:
		if y.IsConst() {
			if y.C == 0 {
				return x
			}
			if y.C >= uint64(w) && op != OpAshr {
				return b.Const(w, 0)
			}
			if op == OpShl && x.Op == OpZext && uint64(x.P1) >= y.C {
				// shl(zext(e, v), c) = concat(zext(e-c, v), 0_c)
				return b.Concat(b.Zext(x.P1-int(y.C), x.Args[0]), b.Const(int(y.C), 0))
			}
			if op == OpShl && x.Op == OpConcat && x.Args[0].IsConst() && x.Args[0].C == 0 && uint64(x.Args[0].W) >= y.C {
				return b.Concat(b.Concat(b.Const(x.Args[0].W-int(y.C), 0), x.Args[1]), b.Const(int(y.C), 0))
			}
		}
		if x.IsConst() && x.C == 0 {
			return x
		}
	case OpUDiv, OpSDiv, OpURem, OpSRem:
		if y.IsConst() && y.C == 1 {
			if op == OpUDiv || op == OpSDiv {
				return x
			}
			return b.Const(w, 0)
		}
		// division by a power of two: shifts and masks instead of a bit-blasted divider
		if y.IsConst() && y.C != 0 && y.C&(y.C-1) == 0 && signExt(y.C, w) > 0 {
			k := 0
			for (uint64(1) << uint(k)) != y.C {
				k++
			}
			kc := b.Const(w, uint64(k))
			switch op {
			case OpUDiv:
				return b.Bin(OpLshr, x, kc)
			case OpURem:
				return b.Bin(OpBAnd, x, b.Const(w, y.C-1))
			case OpSDiv, OpSRem:
				// q = (x + ((x >>a (w-1)) >>l (w-k))) >>a k   (truncation toward zero)
				sign := b.Bin(OpAshr, x, b.Const(w, uint64(w-1)))
				bias := b.Bin(OpLshr, sign, b.Const(w, uint64(w-k)))
				q := b.Bin(OpAshr, b.Bin(OpAdd, x, bias), kc)
				if op == OpSDiv {
					return q
				}
				return b.Bin(OpSub, x, b.Bin(OpShl, q, kc))
			}
		}
	}
	return b.mk(Term{Op: op, W: w, Args: []*Term{x, y}})
}

func (b *TB) Cmp(op Op, x, y *Term) *Term {
	if x.W != y.W || x.W == 0 {
		panic("Cmp width mismatch")
	}
	if x.IsConst() && y.IsConst() {
		return b.Bool(evalCmp(op, x.W, x.C, y.C))
	}
	if x == y {
		return b.Bool(op == OpUle || op == OpSle)
	}
	if op == OpUlt && y.IsConst() && y.C == 0 {
		return b.Bool(false)
	}
	if op == OpUle && x.IsConst() && x.C == 0 {
		return b.Bool(true)
	}
	// zext(a) <u const beyond range
	if (op == OpUlt || op == OpSlt) && y.IsConst() && x.Op == OpZext && x.W > x.Args[0].W {
		iw := x.Args[0].W
		if signExt(y.C, y.W) > 0 && y.C > mask(iw) {
			return b.Bool(true)
		}
	}
	return b.mk(Term{Op: op, W: 0, Args: []*Term{x, y}})
}

func (b *TB) BNot(x *Term) *Term {
	if x.IsConst() {
		return b.Const(x.W, ^x.C)
	}
	if x.Op == OpBNot {
		return x.Args[0]
	}
	return b.mk(Term{Op: OpBNot, W: x.W, Args: []*Term{x}})
}

func (b *TB) Neg(x *Term) *Term {
	if x.IsConst() {
		return b.Const(x.W, -x.C)
	}
	return b.mk(Term{Op: OpNeg, W: x.W, Args: []*Term{x}})
}

func (b *TB) Extract(hi, lo int, x *Term) *Term {
	if lo == 0 && hi == x.W-1 {
		return x
	}
	if hi >= x.W || lo < 0 || hi < lo {
		panic(fmt.Sprintf("bad extract %d %d of width %d", hi, lo, x.W))
	}
	w := hi - lo + 1
	if x.IsConst() {
		return b.Const(w, x.C>>uint(lo))
	}
	switch x.Op {
	case OpExtract:
		return b.Extract(hi+x.P2, lo+x.P2, x.Args[0])
	case OpZext:
		iw := x.Args[0].W
		if hi < iw {
			return b.Extract(hi, lo, x.Args[0])
		}
		if lo >= iw {
			return b.Const(w, 0)
		}
		return b.Zext(w-(iw-lo), b.Extract(iw-1, lo, x.Args[0]))
	case OpSext:
		iw := x.Args[0].W
		if hi < iw {
			return b.Extract(hi, lo, x.Args[0])
		}
	case OpConcat:
		lw := x.Args[1].W
		if hi < lw {
			return b.Extract(hi, lo, x.Args[1])
		}
		if lo >= lw {
			return b.Extract(hi-lw, lo-lw, x.Args[0])
		}
	case OpLshr:
		if x.Args[1].IsConst() {
			c := int(x.Args[1].C)
			if hi+c < x.W {
				return b.Extract(hi+c, lo+c, x.Args[0])
			}
			if lo+c >= x.W {
				return b.Const(w, 0)
			}
		}
	case OpShl:
		if x.Args[1].IsConst() {
			c := int(x.Args[1].C)
			if lo >= c {
				return b.Extract(hi-c, lo-c, x.Args[0])
			}
			if hi < c {
				return b.Const(w, 0)
			}
		}
	case OpBAnd, OpBOr, OpBXor:
		// push extract through bitwise ops (keeps byte code simple)
		return b.Bin(x.Op, b.Extract(hi, lo, x.Args[0]), b.Extract(hi, lo, x.Args[1]))
	case OpIte:
		if x.Args[1].IsConst() || x.Args[2].IsConst() {
			return b.Ite(x.Args[0], b.Extract(hi, lo, x.Args[1]), b.Extract(hi, lo, x.Args[2]))
		}
	}
	return b.mk(Term{Op: OpExtract, W: w, Args: []*Term{x}, P1: hi, P2: lo})
}

func (b *TB) Concat(hi, lo *Term) *Term {
	w := hi.W + lo.W
	if w > 64 {
		panic("concat > 64 bits")
	}
	if hi.IsConst() && lo.IsConst() {
		return b.Const(w, hi.C<<uint(lo.W)|lo.C)
	}
	if hi.IsConst() && hi.C == 0 {
		return b.Zext(hi.W, lo)
	}
	// concat(extract(h,m+1,x), extract(m,l,x)) -> extract(h,l,x)
	if hi.Op == OpExtract && lo.Op == OpExtract && hi.Args[0] == lo.Args[0] && hi.P2 == lo.P1+1 {
		return b.Extract(hi.P1, lo.P2, hi.Args[0])
	}
	return b.mk(Term{Op: OpConcat, W: w, Args: []*Term{hi, lo}})
}

func (b *TB) Zext(extra int, x *Term) *Term {
	if extra == 0 {
		return x
	}
	if x.IsConst() {
		return b.Const(x.W+extra, x.C)
	}
	if x.Op == OpZext {
		return b.Zext(extra+x.P1, x.Args[0])
	}
	return b.mk(Term{Op: OpZext, W: x.W + extra, Args: []*Term{x}, P1: extra})
}

func (b *TB) Sext(extra int, x *Term) *Term {
	if extra == 0 {
		return x
	}
	if x.IsConst() {
		return b.Const(x.W+extra, uint64(signExt(x.C, x.W)))
	}
	if x.Op == OpZext {
		return b.Zext(extra+x.P1, x.Args[0])
	}
	return b.mk(Term{Op: OpSext, W: x.W + extra, Args: []*Term{x}, P1: extra})
}

// Resize converts x to width w, sign- or zero-extending / truncating.
func (b *TB) Resize(x *Term, w int, signed bool) *Term {
	switch {
	case x.W == w:
		return x
	case x.W > w:
		return b.Extract(w-1, 0, x)
	case signed:
		return b.Sext(w-x.W, x)
	default:
		return b.Zext(w-x.W, x)
	}
}

// Eval evaluates t under an assignment of variables (missing vars = 0).
func Eval(t *Term, env map[string]uint64, memo map[*Term]uint64) uint64 {
	if v, ok := memo[t]; ok {
		return v
	}
	var r uint64
	a := func(i int) uint64 { return Eval(t.Args[i], env, memo) }
	switch t.Op {
	case OpConst:
		r = t.C
	case OpVar:
		r = env[t.Name]
		if t.W > 0 {
			r &= mask(t.W)
		}
	case OpNot:
		r = 1 - a(0)
	case OpAnd:
		r = 1
		for i := range t.Args {
			if a(i) == 0 {
				r = 0
				break
			}
		}
	case OpOr:
		r = 0
		for i := range t.Args {
			if a(i) == 1 {
				r = 1
				break
			}
		}
	case OpEq:
		if a(0) == a(1) {
			r = 1
		}
	case OpIte:
		if a(0) == 1 {
			r = a(1)
		} else {
			r = a(2)
		}
	case OpUlt, OpUle, OpSlt, OpSle:
		if evalCmp(t.Op, t.Args[0].W, a(0), a(1)) {
			r = 1
		}
	case OpBNot:
		r = ^a(0) & mask(t.W)
	case OpNeg:
		r = (-a(0)) & mask(t.W)
	case OpExtract:
		r = (a(0) >> uint(t.P2)) & mask(t.W)
	case OpConcat:
		r = a(0)<<uint(t.Args[1].W) | a(1)
	case OpZext:
		r = a(0)
	case OpSext:
		r = uint64(signExt(a(0), t.Args[0].W)) & mask(t.W)
	default:
		v, ok := evalBin(t.Op, t.W, a(0), a(1))
		if !ok {
			panic("Eval: unknown op")
		}
		r = v
	}
	memo[t] = r
	return r
}

func sortName(w int) string {
	if w == 0 {
		return "Bool"
	}
	return fmt.Sprintf("(_ BitVec %d)", w)
}

func constLit(t *Term) string {
	if t.W == 0 {
		if t.C == 1 {
			return "true"
		}
		return "false"
	}
	if t.W%4 == 0 {
		return fmt.Sprintf("#x%0*x", t.W/4, t.C)
	}
	return fmt.Sprintf("(_ bv%d %d)", t.C, t.W)
}

// String renders a term for diagnostics, truncated to a node budget.
func (t *Term) String() string {
	budget := 60
	var sb strings.Builder
	t.render(&sb, &budget)
	return sb.String()
}

func (t *Term) render(sb *strings.Builder, budget *int) {
	*budget--
	if *budget < 0 {
		sb.WriteString("…")
		return
	}
	switch t.Op {
	case OpConst:
		if t.W == 0 {
			sb.WriteString(constLit(t))
		} else {
			fmt.Fprintf(sb, "%d:%d", t.C, t.W)
		}
		return
	case OpVar:
		sb.WriteString(t.Name)
		return
	}
	sb.WriteString("(")
	switch t.Op {
	case OpExtract:
		fmt.Fprintf(sb, "extract[%d:%d]", t.P1, t.P2)
	case OpZext:
		fmt.Fprintf(sb, "zext%d", t.P1)
	case OpSext:
		fmt.Fprintf(sb, "sext%d", t.P1)
	default:
		sb.WriteString(opNames[t.Op])
	}
	for _, a := range t.Args {
		sb.WriteString(" ")
		a.render(sb, budget)
	}
	sb.WriteString(")")
}

// ---- OR of bit-disjoint pieces (byte reassembly such as binary.BigEndian.Uint32) ----

type piece struct {
	off, w int
	t      *Term
}

func (b *TB) pieces(t *Term, off int, out *[]piece) {
	switch {
	case t.IsConst() && t.C == 0:
	case t.Op == OpZext:
		b.pieces(t.Args[0], off, out)
	case t.Op == OpConcat:
		b.pieces(t.Args[1], off, out)
		b.pieces(t.Args[0], off+t.Args[1].W, out)
	default:
		*out = append(*out, piece{off, t.W, t})
	}
}

// orPieces returns x|y as a concatenation when the non-zero regions of x and y are disjoint, else nil.
func (b *TB) orPieces(x, y *Term) *Term {
	if x.Op != OpZext && x.Op != OpConcat && y.Op != OpZext && y.Op != OpConcat {
		return nil
	}
	var ps []piece
	b.pieces(x, 0, &ps)
	nx := len(ps)
	b.pieces(y, 0, &ps)
	if nx == 1 && ps[0].w == x.W && len(ps)-nx == 1 && ps[nx].w == y.W {
		return nil
	}
	// sort by offset (few pieces)
	for i := 1; i < len(ps); i++ {
		for j := i; j > 0 && ps[j].off < ps[j-1].off; j-- {
			ps[j], ps[j-1] = ps[j-1], ps[j]
		}
	}
	for i := 1; i < len(ps); i++ {
		if ps[i-1].off+ps[i-1].w > ps[i].off {
			return nil
		}
	}
	w := x.W
	var res *Term
	pos := 0
	for _, p := range ps {
		if p.off > pos {
			z := b.Const(p.off-pos, 0)
			if res == nil {
				res = z
			} else {
				res = b.Concat(z, res)
			}
		}
		if res == nil {
			res = p.t
		} else {
			res = b.Concat(p.t, res)
		}
		pos = p.off + p.w
	}
	if pos < w {
		if res == nil {
			return b.Const(w, 0)
		}
		res = b.Zext(w-pos, res)
	}
	return res
}
