package main

// Channels (FIFO queues), goroutines as cooperatively scheduled logical threads, mutexes and wait groups.
//
// Default ("pipeline") mode: a goroutine runs until it blocks or ends; the scheduler then hands control to the
// next runnable one (deterministic round robin).  Schedule-exploration mode (vh.Schedule(k)): additionally, before
// every synchronisation operation the running goroutine may be preempted; which goroutine runs next is a choice the
// exploration enumerates, with at most k preemptions per path (context-switch bound).  Sequential consistency is
// assumed.

import (
	"go/token"

	"golang.org/x/tools/go/ssa"
)

type crashState struct{}

// preemptCalls: calls into the store models that count as synchronisation points in schedule exploration.
var preemptCalls = map[string]bool{
	"(*github.com/dgraph-io/badger/v3.DB).Update":        true,
	"(*github.com/dgraph-io/badger/v3.DB).View":          true,
	"(*github.com/dgraph-io/badger/v3.WriteBatch).Flush":  true,
	"(*github.com/janelia-flyem/dvid/zzverif/vstore.Store).Put":    true,
	"(*github.com/janelia-flyem/dvid/zzverif/vstore.Store).Get":    true,
	"(*github.com/janelia-flyem/dvid/zzverif/vstore.Store).Delete": true,
	"(*github.com/janelia-flyem/dvid/zzverif/vstore.Store).RawPut": true,
	"(*github.com/janelia-flyem/dvid/zzverif/vstore.Batch).Commit": true,
}

type threadKill struct{}

type thread struct {
	id      int
	body    func()
	resume  chan bool
	state   int // 0 new, 1 running/runnable, 2 blocked, 3 done
	cond    func() bool
	started bool
	// saved interpreter context
	stack     []*ssa.Function
	callDepth int
	tryDepth  int
	curPanic  *goPanic
	lastPos   token.Pos
}

type schedState struct {
	threads     []*thread
	cur         *thread
	explore     bool
	preemptLeft int
	pending     interface{} // panic value raised in a non-main thread, re-raised in main
	mutexes     map[*Node]int // 0 free, -1 write-locked, n>0 readers
	wgs         map[*Node]int
	deadlock    bool
}

func registerModelIntrinsics(m map[string]intrinsicFn) {
	m[vhPath+"Schedule"] = func(in *Interp, fn *ssa.Function, args []Value) Value {
		s := in.scheduler()
		s.explore = true
		s.preemptLeft = in.concInt(args[0], "Schedule bound")
		return TupleV{}
	}
	m[vhPath+"Quiesce"] = func(in *Interp, fn *ssa.Function, args []Value) Value {
		// let every other goroutine run until it ends or blocks for good
		s := in.scheduler()
		self := s.cur
		in.blockUntil(func() bool {
			for _, t := range s.threads {
				if t != self && t.state != 3 && (t.state != 2 || t.cond()) {
					return false
				}
			}
			return true
		})
		return TupleV{}
	}
}

func (in *Interp) scheduler() *schedState {
	if in.sched == nil {
		main := &thread{id: 0, resume: make(chan bool), state: 1, started: true}
		in.sched = &schedState{threads: []*thread{main}, cur: main, mutexes: map[*Node]int{}, wgs: map[*Node]int{}}
	}
	return in.sched
}

func (in *Interp) saveCtx(t *thread) {
	t.stack, t.callDepth, t.tryDepth, t.curPanic, t.lastPos = in.stack, in.callDepth, in.tryDepth, in.curPanic, in.lastPos
}

func (in *Interp) loadCtx(t *thread) {
	in.stack, in.callDepth, in.tryDepth, in.curPanic, in.lastPos = t.stack, t.callDepth, t.tryDepth, t.curPanic, t.lastPos
}

// runnable lists threads that can make progress now (excluding the given one).
func (s *schedState) runnable(except *thread) []*thread {
	var out []*thread
	for _, t := range s.threads {
		if t == except || t.state == 3 {
			continue
		}
		if t.state == 2 && !t.cond() {
			continue
		}
		out = append(out, t)
	}
	return out
}

// switchTo hands the baton to next and waits until this thread is resumed.
func (in *Interp) switchTo(next *thread) {
	s := in.sched
	cur := s.cur
	in.saveCtx(cur)
	s.cur = next
	in.loadCtx(next)
	if next.state == 2 {
		next.state = 1
	}
	if !next.started {
		next.started = true
		next.state = 1
		go in.threadMain(next)
	}
	next.resume <- true
	if cur.state == 3 {
		return // a finished thread just leaves
	}
	if ok := <-cur.resume; !ok {
		panic(threadKill{})
	}
	// resumed: context was loaded by whoever switched to us
	if cur.id == 0 && s.pending != nil {
		p := s.pending
		s.pending = nil
		panic(p)
	}
}

func (in *Interp) threadMain(t *thread) {
	s := in.sched
	if ok := <-t.resume; !ok {
		return
	}
	defer func() {
		r := recover()
		if _, killed := r.(threadKill); killed {
			return
		}
		t.state = 3
		if r != nil {
			// propagate to the main thread, which owns the path
			s.pending = r
			main := s.threads[0]
			in.saveCtx(t)
			s.cur = main
			in.loadCtx(main)
			if main.state == 2 {
				main.state = 1
			}
			main.resume <- true
			return
		}
		// normal end: pass control on
		next := s.runnable(t)
		if len(next) == 0 {
			// everyone else is blocked: deadlock seen from main
			s.deadlock = true
			main := s.threads[0]
			in.saveCtx(t)
			s.cur = main
			in.loadCtx(main)
			s.pending = unsupported{"deadlock: all goroutines blocked"}
			main.resume <- true
			return
		}
		pick := next[0]
		if s.explore && len(next) > 1 {
			pick = next[in.choose(len(next))]
		}
		in.switchTo(pick)
	}()
	t.body()
}

// blockUntil suspends the current thread until cond holds, running other threads meanwhile.
func (in *Interp) blockUntil(cond func() bool) {
	s := in.scheduler()
	for !cond() {
		cur := s.cur
		cur.state, cur.cond = 2, cond
		next := s.runnable(cur)
		if len(next) == 0 {
			cur.state = 1
			in.unsupportedf("deadlock: all goroutines blocked")
		}
		pick := next[0]
		if s.explore && len(next) > 1 {
			pick = next[in.choose(len(next))]
		}
		in.switchTo(pick)
		cur.state = 1
	}
}

// preemptPoint: in exploration mode, optionally hand control to another runnable thread before a sync operation.
func (in *Interp) preemptPoint() {
	s := in.sched
	if s == nil || !s.explore || s.preemptLeft <= 0 {
		return
	}
	others := s.runnable(s.cur)
	if len(others) == 0 {
		return
	}
	k := in.choose(len(others) + 1)
	if k == 0 {
		return
	}
	s.preemptLeft--
	in.switchTo(others[k-1])
}

// killThreads terminates every parked goroutine at the end of a path.
func (in *Interp) killThreads() {
	s := in.sched
	if s == nil {
		return
	}
	for _, t := range s.threads[1:] {
		if t.started && t.state != 3 && t != s.cur {
			t.state = 3
			t.resume <- false
		}
	}
}

func (in *Interp) goStmt(fr *Frame, x *ssa.Go) {
	if in.pristineMode {
		return // goroutines started by package initialisers (monitors, tickers) are not modelled
	}
	fn, args := in.prepareCall(fr, &x.Call)
	if in.goInline {
		in.invokeFuncV(fn, args)
		return
	}
	s := in.scheduler()
	t := &thread{id: len(s.threads), resume: make(chan bool), state: 0}
	t.body = func() { in.invokeFuncV(fn, args) }
	s.threads = append(s.threads, t)
	in.preemptPoint()
}

func (in *Interp) schedNotify() {}

// schedSync models sync.Mutex / RWMutex / WaitGroup.
func (in *Interp) schedSync(name string, args []Value) Value {
	s := in.scheduler()
	p, _ := args[0].(PtrV)
	key := p.N
	in.preemptPoint()
	switch {
	case name == "(*sync.Mutex).Lock" || name == "(*sync.RWMutex).Lock":
		in.blockUntil(func() bool { return s.mutexes[key] == 0 })
		s.mutexes[key] = -1
	case name == "(*sync.RWMutex).RLock":
		in.blockUntil(func() bool { return s.mutexes[key] >= 0 })
		s.mutexes[key]++
	case name == "(*sync.Mutex).Unlock" || name == "(*sync.RWMutex).Unlock":
		if s.mutexes[key] != -1 {
			in.obligation(in.tb.Bool(false), "sync: unlock of unlocked mutex")
			panic(abortPath{"unlock"})
		}
		s.mutexes[key] = 0
	case name == "(*sync.RWMutex).RUnlock":
		if s.mutexes[key] <= 0 {
			in.obligation(in.tb.Bool(false), "sync: RUnlock of unlocked RWMutex")
			panic(abortPath{"runlock"})
		}
		s.mutexes[key]--
	case name == "(*sync.WaitGroup).Add":
		s.wgs[key] += in.concInt(args[1], "WaitGroup.Add")
		if s.wgs[key] < 0 {
			in.obligation(in.tb.Bool(false), "sync: negative WaitGroup counter")
			panic(abortPath{"wg"})
		}
	case name == "(*sync.WaitGroup).Done":
		s.wgs[key]--
		if s.wgs[key] < 0 {
			in.obligation(in.tb.Bool(false), "sync: negative WaitGroup counter")
			panic(abortPath{"wg"})
		}
	case name == "(*sync.WaitGroup).Wait":
		in.blockUntil(func() bool { return s.wgs[key] == 0 })
	}
	return TupleV{}
}

func (in *Interp) chanSend(ch *ChanObj, v Value) {
	if ch == nil {
		in.unsupportedf("send on nil channel (blocks forever)")
	}
	if in.sched != nil {
		in.preemptPoint()
	}
	if ch.Closed {
		in.obligation(in.tb.Bool(false), "send on closed channel")
		panic(abortPath{"send on closed"})
	}
	// sends never block in this model (unbounded queue); receivers see values in send order
	ch.Q = append(ch.Q, v)
}

func (in *Interp) chanRecv(ch *ChanObj, commaOk bool) Value {
	if ch == nil {
		in.unsupportedf("receive from nil channel (blocks forever)")
	}
	if in.sched != nil {
		in.preemptPoint()
	}
	if len(ch.Q) == 0 && !ch.Closed {
		if in.goInline && in.sched == nil {
			in.unsupportedf("receive from empty open channel (would block)")
		}
		in.blockUntil(func() bool { return len(ch.Q) > 0 || ch.Closed })
	}
	var v Value
	ok := true
	if len(ch.Q) > 0 {
		v = ch.Q[0]
		ch.Q = ch.Q[1:]
	} else {
		v = in.zero(ch.ET)
		ok = false
	}
	if commaOk {
		return TupleV{v, in.tb.Bool(ok)}
	}
	return v
}

func (in *Interp) selectOp(fr *Frame, x *ssa.Select) Value {
	// result tuple: (index int, recvOk bool, r_0 T_0, ... r_n-1 T_n-1)
	nrecv := 0
	for _, st := range x.States {
		if st.Dir == 2 { // types.RecvOnly
			nrecv++
		}
	}
	try := func() (TupleV, bool) {
		res := make(TupleV, 2+nrecv)
		res[1] = in.tb.Bool(false)
		ri := 0
		for _, st := range x.States {
			if st.Dir == 2 {
				ch, _ := in.get(fr, st.Chan).(*ChanObj)
				if ch != nil {
					res[2+ri] = in.zero(ch.ET)
				} else {
					res[2+ri] = in.tb.Const(64, 0)
				}
				ri++
			}
		}
		ri = 0
		for i, st := range x.States {
			ch, _ := in.get(fr, st.Chan).(*ChanObj)
			if st.Dir == 2 {
				if ch != nil && (len(ch.Q) > 0 || ch.Closed) {
					r := in.chanRecv(ch, true).(TupleV)
					res[0] = in.tb.Const(64, uint64(i))
					res[1] = r[1]
					res[2+ri] = r[0]
					return res, true
				}
				ri++
			} else {
				if ch != nil && !ch.Closed {
					in.chanSend(ch, in.get(fr, st.Send))
					res[0] = in.tb.Const(64, uint64(i))
					return res, true
				}
			}
		}
		if !x.Blocking {
			res[0] = in.tb.Const(64, ^uint64(0))
			return res, true
		}
		return nil, false
	}
	if res, ok := try(); ok {
		return res
	}
	ready := func() bool {
		for _, st := range x.States {
			ch, _ := in.get(fr, st.Chan).(*ChanObj)
			if ch == nil {
				continue
			}
			if st.Dir == 2 && (len(ch.Q) > 0 || ch.Closed) {
				return true
			}
			if st.Dir != 2 && !ch.Closed {
				return true
			}
		}
		return false
	}
	in.blockUntil(ready)
	res, _ := try()
	return res
}
