package main

// Channels (FIFO queues), goroutine statements, and placeholders for schedule / crash modes.

import (
	"golang.org/x/tools/go/ssa"
)

type crashState struct{}

type schedState struct{}

func registerModelIntrinsics(m map[string]intrinsicFn) {}

func (in *Interp) schedSync(name string, args []Value) Value { return TupleV{} }
func (in *Interp) schedNotify()                               {}

func (in *Interp) goStmt(fr *Frame, x *ssa.Go) {
	// Sequential approximation is only sound for bodies the harness opts into.
	if !in.goInline {
		in.unsupportedf("go statement (no schedule mode for this harness)")
	}
	fn, args := in.prepareCall(fr, &x.Call)
	in.invokeFuncV(fn, args)
}

func (in *Interp) chanSend(ch *ChanObj, v Value) {
	if ch == nil {
		in.unsupportedf("send on nil channel (blocks forever)")
	}
	if ch.Closed {
		in.obligation(in.tb.Bool(false), "send on closed channel")
		panic(abortPath{"send on closed"})
	}
	ch.Q = append(ch.Q, v)
}

func (in *Interp) chanRecv(ch *ChanObj, commaOk bool) Value {
	if ch == nil {
		in.unsupportedf("receive from nil channel (blocks forever)")
	}
	var v Value
	ok := true
	if len(ch.Q) > 0 {
		v = ch.Q[0]
		ch.Q = ch.Q[1:]
	} else if ch.Closed {
		v = in.zero(ch.ET)
		ok = false
	} else {
		in.unsupportedf("receive from empty open channel (would block)")
	}
	if commaOk {
		return TupleV{v, in.tb.Bool(ok)}
	}
	return v
}

func (in *Interp) selectOp(fr *Frame, x *ssa.Select) Value {
	// result tuple: (index int, recvOk bool, r_0 T_0, ... r_n-1 T_n-1)
	nrecv := 0
	for _, st := range x.States {
		if st.Dir == 2 { // types.RecvOnly
			nrecv++
		}
	}
	res := make(TupleV, 2+nrecv)
	res[1] = in.tb.Bool(false)
	ri := 0
	for _, st := range x.States {
		if st.Dir == 2 {
			ch := in.get(fr, st.Chan).(*ChanObj)
			if ch != nil {
				res[2+ri] = in.zero(ch.ET)
			} else {
				res[2+ri] = in.tb.Const(64, 0)
			}
			ri++
		}
	}
	ri = 0
	for i, st := range x.States {
		ch, _ := in.get(fr, st.Chan).(*ChanObj)
		if st.Dir == 2 {
			if ch != nil && (len(ch.Q) > 0 || ch.Closed) {
				r := in.chanRecv(ch, true).(TupleV)
				res[0] = in.tb.Const(64, uint64(i))
				res[1] = r[1]
				res[2+ri] = r[0]
				return res
			}
			ri++
		} else {
			if ch != nil && !ch.Closed {
				in.chanSend(ch, in.get(fr, st.Send))
				res[0] = in.tb.Const(64, uint64(i))
				return res
			}
		}
	}
	if !x.Blocking {
		res[0] = in.tb.Const(64, ^uint64(0))
		return res
	}
	in.unsupportedf("blocking select with no ready case")
	return nil
}
