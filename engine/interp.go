package main

// Symbolic interpreter over go/ssa.

import (
	"time"
	"os"
	"sync"
	"fmt"
	"go/constant"
	"go/token"
	"go/types"
	"math"
	"sort"
	"strings"

	"golang.org/x/tools/go/ssa"
)

// ---- control-flow signals (thrown with Go panic inside the interpreter) ----

type goPanic struct { // a Go-level panic in the interpreted program
	val  Value
	msg  string
	site string
}
type abortPath struct{ why string }   // path infeasible / assumption false
type unsupported struct{ what string } // cannot interpret: path inconclusive
type budgetExceeded struct{ what string }

type Violation struct {
	Harness string            `json:"harness"`
	Params  []int             `json:"params"`
	Kind    string            `json:"kind"` // "assert" | "panic"
	Label   string            `json:"label"`
	Site    string            `json:"site"`
	Inputs  map[string]string `json:"inputs"` // name -> decimal or hex bytes
	Trace   []string          `json:"trace,omitempty"`
}

type inputVar struct {
	Name  string
	Terms []*Term // one for scalars, many for byte vectors
	Kind  string  // "u" scalar, "b" bytes
}

type fnInfo struct {
	idx       map[ssa.Value]int
	n         int
	instr     int
	ipdom     []int
	ipdomOnce sync.Once
}

type Frame struct {
	fn        *ssa.Function
	info      *fnInfo
	env       []Value
	defers    []func()
	block     *ssa.BasicBlock
	prev      *ssa.BasicBlock
	visits    map[int]int
	result    Value
	recovered bool
}

type Interp struct {
	prog *ssa.Program
	tb   *TB
	sol  *Solver
	ex   *Explorer
	sh   *Shared

	globals   map[*ssa.Global]*Node
	initDone  map[*ssa.Package]bool
	nodeSeq   int
	objSeq    int
	inputs    []inputVar
	nameCount map[string]int
	params    []int
	harness   string

	tryDepth     int
	curPanic     *goPanic
	steps        int
	maxSteps     int
	deadline     time.Time
	unwind       int
	mapOrderAll  bool
	callDepth    int
	maxCallDepth int
	reached      map[string]bool // reach tags seen on this path
	lastPos      token.Pos
	stack        []*ssa.Function
	observations []obsRec
	freshSeq     int
	crash        *crashState
	storeWrites  int
	errType      types.Type
	tainted      string
	sched        *schedState
	goInline     bool
	mfs          *modelFS
	gobVals      []Value
	gzVals       [][]*Term
	jsonT        map[int]types.Type
	seenTerm     map[*Term]bool
	constrained  map[string]bool
	knownFalse   map[*Term]bool
	knownTrue    map[*Term]bool
	noMerge      bool
	makeBound    int
	abstract     map[string]bool
	pristine     *pristineHeap
	pristineMode bool
	memo         map[interface{}]interface{}
	codecSeq     int
	codecs       []codecRec
	abstractUsed bool
}

type codecRec struct {
	kind     string
	enc, dec []*Term
}

var debugSites = os.Getenv("GOSYM_SITES") != ""

type obsRec struct {
	Name string
	T    *Term
}

func (in *Interp) unsupportedf(format string, a ...interface{}) {
	panic(unsupported{fmt.Sprintf(format, a...) + " @ " + in.posString()})
}

func (in *Interp) posString() string {
	if in.lastPos.IsValid() {
		p := in.prog.Fset.Position(in.lastPos)
		return fmt.Sprintf("%s:%d", shortFile(p.Filename), p.Line)
	}
	return "?"
}

func shortFile(f string) string {
	f = strings.TrimPrefix(f, repoDir+"/")
	if i := strings.Index(f, "/go/pkg/mod/"); i >= 0 {
		f = f[i+len("/go/pkg/mod/"):]
	}
	if i := strings.Index(f, "/src/"); i >= 0 && strings.Contains(f, "/go") && !strings.HasPrefix(f, "zz") {
		if strings.HasPrefix(f, "/usr/") || strings.HasPrefix(f, "/opt/") {
			f = f[i+len("/src/"):]
		}
	}
	return f
}

func (in *Interp) funcInfo(fn *ssa.Function) *fnInfo {
	return in.sh.funcInfo(fn)
}

func buildFnInfo(fn *ssa.Function) *fnInfo {
	fi := &fnInfo{idx: map[ssa.Value]int{}}
	add := func(v ssa.Value) {
		fi.idx[v] = fi.n
		fi.n++
	}
	for _, p := range fn.Params {
		add(p)
	}
	for _, fv := range fn.FreeVars {
		add(fv)
	}
	for _, b := range fn.Blocks {
		for _, ins := range b.Instrs {
			fi.instr++
			if v, ok := ins.(ssa.Value); ok {
				add(v)
			}
		}
	}
	return fi
}

// ---- value access -------------------------------------------------------

func (in *Interp) get(fr *Frame, v ssa.Value) Value {
	switch x := v.(type) {
	case *ssa.Const:
		return in.constValue(x)
	case *ssa.Global:
		return PtrV{N: in.globalNode(x)}
	case *ssa.Function:
		return &FuncV{Fn: x}
	case *ssa.Builtin:
		return &FuncV{Builtin: x}
	}
	i, ok := fr.info.idx[v]
	if !ok {
		panic(fmt.Sprintf("get: unknown value %s in %s", v.Name(), fr.fn))
	}
	r := fr.env[i]
	if r == nil {
		panic(fmt.Sprintf("get: unset value %s (%T) in %s", v.Name(), v, fr.fn))
	}
	return r
}

func (in *Interp) set(fr *Frame, v ssa.Value, val Value) {
	fr.env[fr.info.idx[v]] = val
}

func (in *Interp) constValue(c *ssa.Const) Value {
	t := c.Type()
	if c.Value == nil {
		return in.zero(t)
	}
	if w, _, ok := intWidth(t); ok {
		if w == 0 {
			return in.tb.Bool(constant.BoolVal(c.Value))
		}
		if i, exact := constant.Int64Val(constant.ToInt(c.Value)); exact {
			return in.tb.Const(w, uint64(i))
		}
		u, _ := constant.Uint64Val(constant.ToInt(c.Value))
		return in.tb.Const(w, u)
	}
	if isFloat(t) {
		f, _ := constant.Float64Val(c.Value)
		return FloatV{f}
	}
	if isString(t) {
		return in.strConst(constant.StringVal(c.Value))
	}
	if _, ok := t.Underlying().(*types.Interface); ok {
		return IfaceV{}
	}
	return Poison{"const of type " + t.String()}
}

// Package-level state: initialisers run once per instance into a pristine heap; every path works on a lazily
// materialised deep copy (aliasing preserved through the per-path memo).
type pristineHeap struct {
	globals  map[*ssa.Global]*Node
	initDone map[*ssa.Package]bool
}

func (in *Interp) globalNode(g *ssa.Global) *Node {
	if in.pristineMode {
		return in.pristineGlobal(g)
	}
	if n, ok := in.globals[g]; ok {
		return n
	}
	pn := in.pristineGlobal(g)
	n := in.cloneNode(pn)
	in.globals[g] = n
	return n
}

func (in *Interp) pristineGlobal(g *ssa.Global) *Node {
	ph := in.pristine
	if n, ok := ph.globals[g]; ok && (g.Pkg == nil || ph.initDone[g.Pkg]) {
		return n
	}
	in.ensureInit(g.Pkg)
	if n, ok := ph.globals[g]; ok {
		return n
	}
	n := in.newNode(g.Type().(*types.Pointer).Elem(), nil)
	ph.globals[g] = n
	return n
}

// ensureInit runs the variable-initialiser part of a package's synthetic init function (into the pristine heap).
func (in *Interp) ensureInit(pkg *ssa.Package) {
	ph := in.pristine
	if pkg == nil || ph.initDone[pkg] {
		return
	}
	ph.initDone[pkg] = true
	for _, m := range pkg.Members {
		if g, ok := m.(*ssa.Global); ok {
			if _, have := ph.globals[g]; !have {
				ph.globals[g] = in.newNode(g.Type().(*types.Pointer).Elem(), nil)
			}
		}
	}
	initFn := pkg.Func("init")
	if initFn == nil || initFn.Blocks == nil {
		return
	}
	if !in.sh.wantInit(pkg.Pkg.Path()) {
		return
	}
	saveSteps, saveMode, saveTry, savePos := in.steps, in.pristineMode, in.tryDepth, in.lastPos
	in.pristineMode = true
	in.tryDepth = 0
	fr := &Frame{fn: initFn, info: in.funcInfo(initFn), visits: map[int]int{}}
	fr.env = make([]Value, fr.info.n)
	in.runInit(fr)
	in.steps, in.pristineMode, in.tryDepth, in.lastPos = saveSteps, saveMode, saveTry, savePos
}

func (in *Interp) cloneNode(n *Node) *Node {
	if n == nil {
		return nil
	}
	if c, ok := in.memo[n]; ok {
		return c.(*Node)
	}
	in.nodeSeq++
	c := &Node{T: n.T, id: in.nodeSeq}
	in.memo[n] = c
	if n.Kids != nil {
		c.Kids = make([]*Node, len(n.Kids))
		for i, k := range n.Kids {
			c.Kids[i] = in.cloneNode(k)
		}
	} else {
		c.V = in.cloneValue(n.V)
	}
	return c
}

func (in *Interp) cloneValue(v Value) Value {
	switch x := v.(type) {
	case nil, *Term, FloatV, *StrV, Poison:
		return v
	case *StructV:
		if x == nil {
			return x
		}
		f := make([]Value, len(x.F))
		for i := range f {
			f[i] = in.cloneValue(x.F[i])
		}
		return &StructV{F: f}
	case *ArrayV:
		e := make([]Value, len(x.E))
		for i := range e {
			e[i] = in.cloneValue(x.E[i])
		}
		return &ArrayV{E: e}
	case TupleV:
		t := make(TupleV, len(x))
		for i := range t {
			t[i] = in.cloneValue(x[i])
		}
		return t
	case PtrV:
		x.N = in.cloneNode(x.N)
		return x
	case SliceV:
		x.Arr = in.cloneNode(x.Arr)
		return x
	case *MapObj:
		if x == nil {
			return x
		}
		if c, ok := in.memo[x]; ok {
			return c.(*MapObj)
		}
		in.objSeq++
		c := &MapObj{KT: x.KT, VT: x.VT, id: in.objSeq}
		in.memo[x] = c
		for _, e := range x.Entries {
			if !e.Deleted {
				c.Entries = append(c.Entries, &MapEntry{K: in.cloneValue(e.K), V: in.cloneValue(e.V)})
			}
		}
		return c
	case IfaceV:
		x.V = in.cloneValue(x.V)
		return x
	case *FuncV:
		if x == nil || len(x.Bindings) == 0 {
			return x
		}
		if c, ok := in.memo[x]; ok {
			return c.(*FuncV)
		}
		c := &FuncV{Fn: x.Fn, Builtin: x.Builtin}
		in.memo[x] = c
		c.Bindings = make([]Value, len(x.Bindings))
		for i := range c.Bindings {
			c.Bindings[i] = in.cloneValue(x.Bindings[i])
		}
		return c
	case *ChanObj:
		if x == nil {
			return x
		}
		if c, ok := in.memo[x]; ok {
			return c.(*ChanObj)
		}
		in.objSeq++
		c := &ChanObj{Closed: x.Closed, Cap: x.Cap, ET: x.ET, id: in.objSeq}
		in.memo[x] = c
		for _, q := range x.Q {
			c.Q = append(c.Q, in.cloneValue(q))
		}
		return c
	case *RangeIter:
		return x
	}
	panic(fmt.Sprintf("cloneValue: %T", v))
}

// runInit executes init, tolerating unsupported operations (they poison their result).
func (in *Interp) runInit(fr *Frame) {
	defer func() {
		if r := recover(); r != nil {
			switch r.(type) {
			case unsupported, *goPanic, budgetExceeded:
				// tolerate: package initialisation is best effort
				return
			}
			panic(r)
		}
	}()
	blk := fr.fn.Blocks[0]
	for blk != nil {
		fr.block = blk
		var next *ssa.BasicBlock
		for _, ins := range blk.Instrs {
			switch x := ins.(type) {
			case *ssa.If:
				// init$guard check: always proceed to initialisation
				c := in.get(fr, x.Cond)
				if t, ok := c.(*Term); ok && t.IsConst() {
					if t.C == 1 {
						next = blk.Succs[0]
					} else {
						next = blk.Succs[1]
					}
				} else {
					next = blk.Succs[1]
				}
			case *ssa.Jump:
				next = blk.Succs[0]
			case *ssa.Return:
				return
			case *ssa.Call:
				callee := x.Call.StaticCallee()
				if callee != nil && callee.Name() == "init" {
					// other packages are initialised lazily
					in.set(fr, x, TupleV{})
					continue
				}
				if callee != nil && strings.HasPrefix(callee.Name(), "init#") {
					// user init functions: run (best effort) for the repository's own packages only
					if callee.Pkg == nil || !strings.HasPrefix(callee.Pkg.Pkg.Path(), modPath) || strings.Contains(callee.Pkg.Pkg.Path(), "zzverif") {
						in.set(fr, x, TupleV{})
						continue
					}
				}
				in.initInstr(fr, ins)
			default:
				in.initInstr(fr, ins)
			}
		}
		fr.prev = blk
		blk = next
	}
}

func (in *Interp) initInstr(fr *Frame, ins ssa.Instruction) {
	defer func() {
		if r := recover(); r != nil {
			switch r.(type) {
			case unsupported, *goPanic, budgetExceeded, abortPath:
				if v, ok := ins.(ssa.Value); ok {
					in.set(fr, v, Poison{fmt.Sprint(r)})
				}
				return
			}
			if s, ok := r.(string); ok && (strings.HasPrefix(s, "get:") || strings.Contains(s, "Poison")) {
				if v, ok := ins.(ssa.Value); ok {
					in.set(fr, v, Poison{s})
				}
				return
			}
			if _, ok := r.(error); ok { // runtime type errors from poisoned values
				if v, ok := ins.(ssa.Value); ok {
					in.set(fr, v, Poison{fmt.Sprint(r)})
				}
				return
			}
			panic(r)
		}
	}()
	in.exec(fr, ins)
}

// ---- calling ------------------------------------------------------------

func (in *Interp) callFunction(fn *ssa.Function, args []Value, bindings []Value) Value {
	if ix := in.sh.intrinsic(fn); ix != nil {
		r := ix(in, fn, args)
		if _, real := r.(runRealBody); !real {
			return r
		}
	}
	if in.sched != nil && in.sched.explore && preemptCalls[fn.String()] {
		in.preemptPoint() // store operations are synchronisation points of the modelled libraries
	}
	if len(in.abstract) > 0 && in.abstract[fn.String()] {
		if ax, ok := abstractStubs[fn.String()]; ok {
			in.abstractUsed = true
			return ax(in, fn, args)
		}
		in.unsupportedf("no abstract stub for %s", fn.String())
	}
	if fn.Blocks == nil {
		in.unsupportedf("call to function without body %s", fn.String())
	}
	in.callDepth++
	if in.callDepth > in.maxCallDepth {
		in.callDepth--
		panic(budgetExceeded{"call depth in " + fn.String()})
	}
	in.sh.noteFunc(fn)
	fr := &Frame{fn: fn, info: in.funcInfo(fn), visits: map[int]int{}}
	fr.env = make([]Value, fr.info.n)
	for i, p := range fn.Params {
		fr.env[fr.info.idx[p]] = args[i]
	}
	for i, fv := range fn.FreeVars {
		fr.env[fr.info.idx[fv]] = bindings[i]
	}
	in.stack = append(in.stack, fn)
	savedPos := in.lastPos
	defer func() {
		in.callDepth--
		in.stack = in.stack[:len(in.stack)-1]
		in.lastPos = savedPos
	}()
	in.runFrame(fr)
	return fr.result
}

// runRealBody: returned by an intrinsic that does not apply to these arguments; the function's own body is executed.
type runRealBody struct{}

// runFrame executes the body, handling Go panics and defers.
func (in *Interp) runFrame(fr *Frame) {
	var pending *goPanic
	func() {
		defer func() {
			if r := recover(); r != nil {
				if gp, ok := r.(*goPanic); ok {
					pending = gp
					return
				}
				panic(r)
			}
		}()
		in.runBlocks(fr, fr.fn.Blocks[0])
	}()
	if pending == nil {
		return
	}
	// panicking: run deferred calls
	for pending != nil {
		if len(fr.defers) == 0 {
			break
		}
		d := fr.defers[len(fr.defers)-1]
		fr.defers = fr.defers[:len(fr.defers)-1]
		saved := in.curPanic
		in.curPanic = pending
		func() {
			defer func() {
				if r := recover(); r != nil {
					if gp, ok := r.(*goPanic); ok {
						in.curPanic = gp // new panic replaces
						return
					}
					panic(r)
				}
			}()
			d()
		}()
		pending = in.curPanic
		in.curPanic = saved
	}
	if pending != nil {
		panic(pending)
	}
	// recovered: run remaining defers normally, then the Recover block
	for len(fr.defers) > 0 {
		d := fr.defers[len(fr.defers)-1]
		fr.defers = fr.defers[:len(fr.defers)-1]
		d()
	}
	if fr.fn.Recover != nil {
		in.runBlocks(fr, fr.fn.Recover)
		return
	}
	// zero results
	res := fr.fn.Signature.Results()
	switch res.Len() {
	case 0:
		fr.result = TupleV{}
	case 1:
		fr.result = in.zero(res.At(0).Type())
	default:
		fr.result = in.zero(res)
	}
}

func (in *Interp) runBlocks(fr *Frame, start *ssa.BasicBlock) {
	blk := start
	skipPhi := false
	for blk != nil {
		fr.block = blk
		fr.visits[blk.Index]++
		if fr.visits[blk.Index] > in.unwind {
			panic(budgetExceeded{fmt.Sprintf("unwind bound %d exceeded in %s block %d", in.unwind, fr.fn, blk.Index)})
		}
		var next *ssa.BasicBlock
		// phis first (parallel assignment)
		nphi := 0
		for _, ins := range blk.Instrs {
			if _, ok := ins.(*ssa.Phi); ok {
				nphi++
			} else {
				break
			}
		}
		if skipPhi {
			skipPhi = false
		} else if nphi > 0 {
			vals := make([]Value, nphi)
			pi := -1
			for i, p := range blk.Preds {
				if p == fr.prev {
					pi = i
					break
				}
			}
			if pi < 0 {
				panic("phi: predecessor not found")
			}
			for i := 0; i < nphi; i++ {
				vals[i] = in.get(fr, blk.Instrs[i].(*ssa.Phi).Edges[pi])
			}
			for i := 0; i < nphi; i++ {
				in.set(fr, blk.Instrs[i].(*ssa.Phi), vals[i])
			}
		}
		for _, ins := range blk.Instrs[nphi:] {
			in.steps++
			if in.steps > in.maxSteps {
				panic(budgetExceeded{"step budget"})
			}
			if in.steps&0x3ff == 0 && !in.deadline.IsZero() && time.Now().After(in.deadline) {
				panic(budgetExceeded{"instance timeout (inside a path)"})
			}
			if p := ins.Pos(); p.IsValid() {
				in.lastPos = p
			}
			switch x := ins.(type) {
			case *ssa.If:
				c := in.get(fr, x.Cond).(*Term)
				if !c.IsConst() {
					if j := in.tryMerge(fr, blk, c); j != nil {
						next = j
						skipPhi = true
						break
					}
				}
				if in.branch(c) {
					next = blk.Succs[0]
				} else {
					next = blk.Succs[1]
				}
			case *ssa.Jump:
				next = blk.Succs[0]
			case *ssa.Return:
				switch len(x.Results) {
				case 0:
					fr.result = TupleV{}
				case 1:
					fr.result = in.get(fr, x.Results[0])
				default:
					tv := make(TupleV, len(x.Results))
					for i, r := range x.Results {
						tv[i] = in.get(fr, r)
					}
					fr.result = tv
				}
				return
			case *ssa.Panic:
				v := in.get(fr, x.X)
				in.explicitPanic(v)
			default:
				in.exec(fr, ins)
			}
		}
		fr.prev = blk
		blk = next
	}
}

func (in *Interp) panicMsg(v Value) string {
	if iv, ok := v.(IfaceV); ok {
		if s, ok := iv.V.(*StrV); ok {
			if c, ok := s.Concrete(); ok {
				return c
			}
		}
		if iv.T != nil {
			return "value of type " + iv.T.String()
		}
	}
	return "panic"
}

// explicitPanic handles a `panic(v)` statement.
func (in *Interp) explicitPanic(v Value) {
	gp := &goPanic{val: v, msg: "explicit panic: " + in.panicMsg(v), site: in.siteString()}
	if in.tryDepth > 0 {
		panic(gp)
	}
	in.sh.stats.add("obligations", 1) // "this panic statement is unreachable"
	in.recordViolation("panic", "explicit-panic", gp.msg)
	panic(abortPath{"panic reported"})
}

// siteString identifies the innermost repo function (not line) for stable known-finding keys.
func (in *Interp) siteString() string {
	fn := ""
	for i := len(in.stack) - 1; i >= 0; i-- {
		f := in.stack[i]
		if f.Pkg != nil && strings.HasPrefix(f.Pkg.Pkg.Path(), "github.com/janelia-flyem/dvid") && !strings.Contains(f.Name(), "Verif") {
			fn = f.String()
			break
		}
	}
	if fn == "" && len(in.stack) > 0 {
		fn = in.stack[len(in.stack)-1].String()
	}
	return fn + " (" + in.posString() + ")"
}

func (in *Interp) siteFunc() string {
	for i := len(in.stack) - 1; i >= 0; i-- {
		f := in.stack[i]
		if f.Pkg != nil && strings.HasPrefix(f.Pkg.Pkg.Path(), "github.com/janelia-flyem/dvid") && !strings.Contains(f.String(), "Verif") {
			return f.String()
		}
	}
	if len(in.stack) > 0 {
		return in.stack[len(in.stack)-1].String()
	}
	return "?"
}

// obligation: `safe` must hold; otherwise the Go run time would panic with kind.
func (in *Interp) obligation(safe *Term, kind string) {
	if safe.IsTrue() {
		return
	}
	if in.pristineMode {
		// package initialisation is best effort: a failing check just abandons that initialiser
		if safe.IsFalse() {
			panic(&goPanic{msg: "runtime error during package init: " + kind})
		}
		return
	}
	in.sh.stats.add("obligations", 1)
	if in.tryDepth > 0 {
		// inside vh.Try / a recovering frame the run-time check is not a violation: both outcomes are explored
		in.sh.stats.add("discharged", 1)
		if !in.branch(safe) {
			panic(&goPanic{val: IfaceV{T: types.Typ[types.String], V: in.strConst("runtime error: " + kind)}, msg: "runtime error: " + kind, site: in.siteString()})
		}
		return
	}
	if safe.IsFalse() {
		in.recordViolation("panic", kind, "runtime panic: "+kind)
		panic(abortPath{"panic reported"})
	}
	in.checkDeadline()
	r := in.sol.CheckWith(in.tb.Not(safe))
	switch r {
	case Sat:
		in.sol.Push()
		in.sol.Assert(in.tb.Not(safe))
		in.sol.Check()
		in.recordViolationFromModel("panic", kind, "runtime panic: "+kind)
		in.sol.Pop()
	case Unknown:
		in.taint("solver unknown on obligation " + kind + " @ " + in.posString())
	default:
		in.sh.stats.add("discharged", 1)
	}
	in.assume(safe)
}

func (in *Interp) taint(why string) {
	if in.tainted == "" {
		in.tainted = why
	}
	in.sh.noteInconclusive(why)
}

// assume adds c to the path condition; aborts the path if infeasible.
func (in *Interp) assume(c *Term) {
	if c.IsTrue() {
		return
	}
	if c.IsFalse() {
		panic(abortPath{"assume false"})
	}
	in.noteFacts(c)
	if in.ex.replaying() {
		in.assertPC(c)
		return
	}
	in.assertPC(c)
	in.sol.Tag = "assume"
	r := in.sol.Check()
	in.sol.Tag = ""
	if r == Unsat {
		panic(abortPath{"assumption infeasible"})
	} else if r == Unknown {
		in.taint("solver unknown on assume @ " + in.posString())
	}
}

// assertPC adds t to the solver context and records which variables are now constrained.
func (in *Interp) assertPC(t *Term) {
	in.sol.Assert(t)
	in.markVars(t)
}

func (in *Interp) markVars(t *Term) {
	if in.seenTerm == nil {
		in.seenTerm = map[*Term]bool{}
		in.constrained = map[string]bool{}
	}
	if in.seenTerm[t] {
		return
	}
	in.seenTerm[t] = true
	if t.Op == OpVar {
		in.constrained[t.Name] = true
		return
	}
	for _, a := range t.Args {
		in.markVars(a)
	}
}

// freeLiteral reports whether c is a test `var == const` (or its negation) on a variable no assertion mentions:
// both outcomes are then feasible without asking the solver.
func (in *Interp) freeLiteral(c *Term) bool {
	if c.Op == OpNot {
		c = c.Args[0]
	}
	if c.Op != OpEq {
		return false
	}
	a, b := c.Args[0], c.Args[1]
	if a.Op != OpVar {
		a, b = b, a
	}
	if a.Op != OpVar || !b.IsConst() {
		return false
	}
	return !in.constrained[a.Name]
}

// noteFacts remembers asserted disequalities / equalities so that later identical tests need no solver query.
func (in *Interp) noteFacts(c *Term) {
	switch c.Op {
	case OpAnd:
		for _, a := range c.Args {
			in.noteFacts(a)
		}
	case OpNot:
		if e := c.Args[0]; e.Op == OpEq {
			if in.knownFalse == nil {
				in.knownFalse = map[*Term]bool{}
			}
			in.knownFalse[e] = true
		}
	case OpEq:
		if in.knownTrue == nil {
			in.knownTrue = map[*Term]bool{}
		}
		in.knownTrue[c] = true
	}
}

// branch decides a (possibly symbolic) condition, forking the exploration if both sides are feasible.
func (in *Interp) checkDeadline() {
	if !in.deadline.IsZero() && time.Now().After(in.deadline) {
		panic(budgetExceeded{"instance timeout (inside a path)"})
	}
}

func (in *Interp) branch(c *Term) bool {
	if !c.IsConst() {
		in.checkDeadline()
	}
	if c.IsConst() {
		return c.C == 1
	}
	if in.knownFalse[c] {
		return false
	}
	if in.knownTrue[c] {
		return true
	}
	if c.Op == OpNot && in.knownFalse[c.Args[0]] {
		return true
	}
	if c.Op == OpNot && in.knownTrue[c.Args[0]] {
		return false
	}
	if d, ok := in.ex.next(); ok {
		// replaying a recorded decision
		if d.val == 1 {
			in.assertPC(c)
			in.noteFacts(c)
			return true
		}
		in.assertPC(in.tb.Not(c))
		in.noteFacts(in.tb.Not(c))
		return false
	}
	if in.freeLiteral(c) {
		in.ex.push(decision{val: 1, more: true, kind: dBranch})
		in.assertPC(c)
		in.noteFacts(c)
		return true
	}
	in.sh.stats.add("feasibility", 2)
	if debugSites {
		in.sh.stats.add("site "+in.posString()+" "+c.String(), 1)
	}
	in.sol.Tag = "branch"
	defer func() { in.sol.Tag = "" }()
	rt := in.sol.CheckWith(c)
	rf := Sat
	if rt != Unsat {
		rf = in.sol.CheckWith(in.tb.Not(c))
	}
	defer func() {
		// facts for the side taken (only reached on normal return)
	}()
	if rt == Unknown || rf == Unknown {
		in.taint("solver unknown on branch @ " + in.posString())
	}
	tOK, fOK := rt != Unsat, rf != Unsat
	switch {
	case tOK && fOK:
		in.ex.push(decision{val: 1, more: true, kind: dBranch})
		in.assertPC(c)
		in.noteFacts(c)
		return true
	case tOK:
		// not a real decision: no fork
		in.assertPC(c)
		in.noteFacts(c)
		in.ex.push(decision{val: 1, kind: dBranch})
		return true
	case fOK:
		in.assertPC(in.tb.Not(c))
		in.noteFacts(in.tb.Not(c))
		in.ex.push(decision{val: 0, kind: dBranch})
		return false
	}
	panic(abortPath{"both branch sides infeasible"})
}

// choose makes an n-way nondeterministic choice (no solver involved).
func (in *Interp) choose(n int) int {
	if n <= 1 {
		return 0
	}
	if d, ok := in.ex.next(); ok {
		return int(d.val)
	}
	in.ex.push(decision{val: 0, more: true, kind: dChoose, n: n})
	return 0
}

// concretize forks over all feasible values of t.
func (in *Interp) concretize(t *Term) uint64 {
	if t.IsConst() {
		return t.C
	}
	if d, ok := in.ex.next(); ok {
		if !d.fresh {
			in.assertPC(in.tb.Eq(t, in.tb.Const(t.W, d.val)))
			return d.val
		}
		// backtracked into this decision: pick a new value excluding earlier ones
		in.ex.unnext()
		d = in.ex.pop()
		return in.concretizeFresh(t, d.excluded)
	}
	return in.concretizeFresh(t, nil)
}

func (in *Interp) concretizeFresh(t *Term, excluded []uint64) uint64 {
	var ex []*Term
	for _, v := range excluded {
		ex = append(ex, in.tb.Ne(t, in.tb.Const(t.W, v)))
	}
	in.sh.stats.add("feasibility", 2)
	in.sol.Tag = "concretize"
	defer func() { in.sol.Tag = "" }()
	in.sol.Push()
	for _, e := range ex {
		in.sol.Assert(e)
	}
	r := in.sol.Check()
	if r != Sat {
		in.sol.Pop()
		if r == Unknown {
			in.taint("solver unknown on concretize @ " + in.posString())
		}
		panic(abortPath{"no further value"})
	}
	vals, err := in.sol.Values([]*Term{t})
	if err != nil {
		in.sol.Pop()
		in.taint("model extraction failed: " + err.Error())
		panic(abortPath{"no model"})
	}
	v := vals[0]
	// is there another value?
	in.assertPC(in.tb.Ne(t, in.tb.Const(t.W, v)))
	more := in.sol.Check() != Unsat
	in.sol.Pop()
	in.ex.push(decision{val: v, more: more, kind: dConcretize, excluded: append([]uint64{}, excluded...)})
	in.assertPC(in.tb.Eq(t, in.tb.Const(t.W, v)))
	return v
}

func (in *Interp) concInt(v Value, what string) int {
	t, ok := v.(*Term)
	if !ok {
		panic(fmt.Sprintf("concInt(%s): not a term: %T", what, v))
	}
	if t.IsConst() {
		return int(signExt(t.C, t.W))
	}
	c := in.concretize(t)
	return int(signExt(c, t.W))
}

// ---- instruction execution ----------------------------------------------

func (in *Interp) exec(fr *Frame, ins ssa.Instruction) {
	switch x := ins.(type) {
	case *ssa.DebugRef:
	case *ssa.Alloc:
		n := in.newNode(x.Type().(*types.Pointer).Elem(), nil)
		in.set(fr, x, PtrV{N: n})
	case *ssa.BinOp:
		in.set(fr, x, in.binop(x.Op, in.get(fr, x.X), in.get(fr, x.Y), x.X.Type(), x.Y.Type()))
	case *ssa.UnOp:
		in.set(fr, x, in.unop(x, in.get(fr, x.X)))
	case *ssa.Call:
		in.set(fr, x, in.doCall(fr, &x.Call, x))
	case *ssa.ChangeInterface:
		in.set(fr, x, in.get(fr, x.X))
	case *ssa.ChangeType:
		in.set(fr, x, in.get(fr, x.X))
	case *ssa.Convert:
		in.set(fr, x, in.convert(in.get(fr, x.X), x.X.Type(), x.Type()))
	case *ssa.MultiConvert:
		in.set(fr, x, in.convert(in.get(fr, x.X), x.X.Type(), x.Type()))
	case *ssa.Extract:
		in.set(fr, x, in.get(fr, x.Tuple).(TupleV)[x.Index])
	case *ssa.Field:
		in.set(fr, x, in.get(fr, x.X).(*StructV).F[x.Field])
	case *ssa.FieldAddr:
		p := in.derefable(in.get(fr, x.X))
		in.set(fr, x, PtrV{N: p.N.Kids[x.Field]})
	case *ssa.Index:
		in.set(fr, x, in.indexValue(in.get(fr, x.X), in.get(fr, x.Index).(*Term), x.Index.Type()))
	case *ssa.IndexAddr:
		in.set(fr, x, in.indexAddr(in.get(fr, x.X), in.get(fr, x.Index).(*Term), x.Index.Type()))
	case *ssa.Lookup:
		in.set(fr, x, in.lookup(x, in.get(fr, x.X), in.get(fr, x.Index)))
	case *ssa.MakeClosure:
		b := make([]Value, len(x.Bindings))
		for i, bv := range x.Bindings {
			b[i] = in.get(fr, bv)
		}
		in.set(fr, x, &FuncV{Fn: x.Fn.(*ssa.Function), Bindings: b})
	case *ssa.MakeInterface:
		in.set(fr, x, IfaceV{T: x.X.Type(), V: in.get(fr, x.X)})
	case *ssa.MakeMap:
		mt := x.Type().Underlying().(*types.Map)
		in.objSeq++
		in.set(fr, x, &MapObj{KT: mt.Key(), VT: mt.Elem(), id: in.objSeq})
	case *ssa.MakeChan:
		in.objSeq++
		in.set(fr, x, &ChanObj{Cap: in.concInt(in.get(fr, x.Size), "chan size"), ET: x.Type().Underlying().(*types.Chan).Elem(), id: in.objSeq})
	case *ssa.MakeSlice:
		lenV, capV := in.get(fr, x.Len), in.get(fr, x.Cap)
		sameLC := lenV == capV
		if lt, ok := lenV.(*Term); ok && lt.W < 64 {
			_, signed, _ := intWidth(x.Len.Type())
			lenV = in.tb.Resize(lt, 64, signed)
		}
		if ct, ok := capV.(*Term); ok && ct.W < 64 {
			_, signed, _ := intWidth(x.Cap.Type())
			capV = in.tb.Resize(ct, 64, signed)
		}
		if sameLC {
			capV = lenV
		}
		in.set(fr, x, in.makeSlice(x.Type().Underlying().(*types.Slice).Elem(), lenV, capV))
	case *ssa.MapUpdate:
		in.mapUpdate(in.get(fr, x.Map), in.get(fr, x.Key), in.get(fr, x.Value))
	case *ssa.Range:
		in.set(fr, x, in.makeRange(in.get(fr, x.X)))
	case *ssa.Next:
		in.set(fr, x, in.rangeNext(x, in.get(fr, x.Iter).(*RangeIter)))
	case *ssa.Slice:
		in.set(fr, x, in.sliceOp(fr, x))
	case *ssa.SliceToArrayPointer:
		s := in.get(fr, x.X).(SliceV)
		alen := int(x.Type().(*types.Pointer).Elem().Underlying().(*types.Array).Len())
		if s.Len < alen {
			in.obligation(in.tb.Bool(false), "slice to array pointer: length too short")
		}
		if s.VW != 0 {
			in.unsupportedf("SliceToArrayPointer on view")
		}
		et := s.Arr.T.Underlying().(*types.Array).Elem()
		in.nodeSeq++
		sub := &Node{T: types.NewArray(et, int64(alen)), Kids: s.Arr.Kids[s.Off : s.Off+alen], id: in.nodeSeq}
		in.set(fr, x, PtrV{N: sub})
	case *ssa.Store:
		in.store(in.get(fr, x.Addr), in.get(fr, x.Val))
	case *ssa.TypeAssert:
		in.set(fr, x, in.typeAssert(x, in.get(fr, x.X)))
	case *ssa.Defer:
		fn, args := in.prepareCall(fr, &x.Call)
		fr.defers = append(fr.defers, func() { in.invokeFuncV(fn, args) })
	case *ssa.RunDefers:
		for len(fr.defers) > 0 {
			d := fr.defers[len(fr.defers)-1]
			fr.defers = fr.defers[:len(fr.defers)-1]
			d()
		}
	case *ssa.Go:
		in.goStmt(fr, x)
	case *ssa.Send:
		ch := in.get(fr, x.Chan).(*ChanObj)
		in.chanSend(ch, in.get(fr, x.X))
	case *ssa.Select:
		in.set(fr, x, in.selectOp(fr, x))
	default:
		in.unsupportedf("instruction %T", ins)
	}
}

func (in *Interp) derefable(v Value) PtrV {
	p, ok := v.(PtrV)
	if !ok {
		if _, isP := v.(Poison); isP {
			in.unsupportedf("use of poisoned value: %s", v.(Poison).Why)
		}
		panic(fmt.Sprintf("derefable: %T", v))
	}
	if p.N == nil {
		in.obligation(in.tb.Bool(false), "nil pointer dereference")
		panic(abortPath{"nil deref"})
	}
	if p.Sym != nil {
		// pointer to symbolic element of an aggregate: concretize the index
		i := int(in.concretize(p.Sym))
		return PtrV{N: p.N.Kids[i]}
	}
	return p
}

// ---- loads and stores -----------------------------------------------------

func (in *Interp) load(pv Value) Value {
	p, ok := pv.(PtrV)
	if !ok {
		if po, isP := pv.(Poison); isP {
			in.unsupportedf("load through poisoned pointer: %s", po.Why)
		}
		panic(fmt.Sprintf("load: %T", pv))
	}
	if p.N == nil {
		in.obligation(in.tb.Bool(false), "nil pointer dereference")
		panic(abortPath{"nil deref"})
	}
	if p.VW != 0 {
		if p.Sym != nil {
			n := p.Hi - p.Lo
			if n > in.sh.opts.MaxIteChain {
				i := int(in.concretize(p.Sym))
				return in.readBytes(p.N, p.VOff+i*p.VW, p.VW)
			}
			res := in.readBytes(p.N, p.VOff+(p.Hi-1)*p.VW, p.VW)
			for i := p.Hi - 2; i >= p.Lo; i-- {
				res = in.tb.Ite(in.tb.Eq(p.Sym, in.tb.Const(p.Sym.W, uint64(i))), in.readBytes(p.N, p.VOff+i*p.VW, p.VW), res)
			}
			return res
		}
		return in.readBytes(p.N, p.VOff, p.VW)
	}
	if p.Sym != nil {
		return in.loadSym(p.N, p.Sym, p.Lo, p.Hi)
	}
	return in.loadNode(p.N)
}

func (in *Interp) loadSym(arr *Node, idx *Term, lo, hi int) Value {
	if hi-lo <= 0 {
		panic(abortPath{"empty symbolic range"})
	}
	// scalar cells: ite chain; otherwise concretize
	first := arr.Kids[lo]
	if _, ok := first.V.(*Term); !ok || first.Kids != nil || hi-lo > in.sh.opts.MaxIteChain {
		i := int(in.concretize(idx))
		return in.loadNode(arr.Kids[i])
	}
	res := arr.Kids[hi-1].V.(*Term)
	for i := hi - 2; i >= lo; i-- {
		res = in.tb.Ite(in.tb.Eq(idx, in.tb.Const(idx.W, uint64(i))), arr.Kids[i].V.(*Term), res)
	}
	return res
}

func (in *Interp) store(pv Value, v Value) {
	p, ok := pv.(PtrV)
	if !ok {
		if po, isP := pv.(Poison); isP {
			in.unsupportedf("store through poisoned pointer: %s", po.Why)
		}
		panic(fmt.Sprintf("store: %T", pv))
	}
	if p.N == nil {
		in.obligation(in.tb.Bool(false), "nil pointer dereference")
		panic(abortPath{"nil deref"})
	}
	if p.VW != 0 {
		if p.Sym != nil {
			n := p.Hi - p.Lo
			if n > in.sh.opts.MaxIteChain {
				i := int(in.concretize(p.Sym))
				in.writeBytes(p.N, p.VOff+i*p.VW, p.VW, v.(*Term))
				return
			}
			for i := p.Lo; i < p.Hi; i++ {
				old := in.readBytes(p.N, p.VOff+i*p.VW, p.VW)
				in.writeBytes(p.N, p.VOff+i*p.VW, p.VW, in.tb.Ite(in.tb.Eq(p.Sym, in.tb.Const(p.Sym.W, uint64(i))), v.(*Term), old))
			}
			return
		}
		in.writeBytes(p.N, p.VOff, p.VW, v.(*Term))
		return
	}
	if p.Sym != nil {
		first := p.N.Kids[p.Lo]
		nv, ok := v.(*Term)
		if _, ok2 := first.V.(*Term); !ok || !ok2 || first.Kids != nil || p.Hi-p.Lo > in.sh.opts.MaxIteChain {
			i := int(in.concretize(p.Sym))
			in.storeNode(p.N.Kids[i], v)
			return
		}
		for i := p.Lo; i < p.Hi; i++ {
			k := p.N.Kids[i]
			k.V = in.tb.Ite(in.tb.Eq(p.Sym, in.tb.Const(p.Sym.W, uint64(i))), nv, k.V.(*Term))
		}
		return
	}
	in.storeNode(p.N, v)
}

// elemBytes gives the byte width of an integer array's element type.
func elemBytes(arr *Node) int {
	at, ok := arr.T.Underlying().(*types.Array)
	if !ok {
		return 0
	}
	w, _, ok := intWidth(at.Elem())
	if !ok || w == 0 {
		return 0
	}
	return w / 8
}

// readBytes reads n bytes little-endian at byte offset off of an integer array node.
func (in *Interp) readBytes(arr *Node, off, n int) *Term {
	ew := elemBytes(arr)
	if ew == 0 {
		in.unsupportedf("byte view over non-integer array")
	}
	var res *Term
	for i := n - 1; i >= 0; i-- { // most significant first
		bo := off + i
		ci := bo / ew
		if ci < 0 || ci >= len(arr.Kids) {
			in.obligation(in.tb.Bool(false), "index out of range (view)")
			panic(abortPath{"view oob"})
		}
		cell := arr.Kids[ci].V.(*Term)
		sh := (bo % ew) * 8
		bt := in.tb.Extract(sh+7, sh, cell)
		if res == nil {
			res = bt
		} else {
			res = in.tb.Concat(res, bt)
		}
	}
	return res
}

func (in *Interp) writeBytes(arr *Node, off, n int, v *Term) {
	ew := elemBytes(arr)
	if ew == 0 {
		in.unsupportedf("byte view over non-integer array")
	}
	for i := 0; i < n; i++ {
		bo := off + i
		ci := bo / ew
		if ci < 0 || ci >= len(arr.Kids) {
			in.obligation(in.tb.Bool(false), "index out of range (view)")
			panic(abortPath{"view oob"})
		}
		bt := in.tb.Extract(i*8+7, i*8, v)
		if ew == 1 {
			arr.Kids[ci].V = bt
			continue
		}
		cell := arr.Kids[ci].V.(*Term)
		sh := (bo % ew) * 8
		// replace bits [sh+7:sh]
		var parts *Term
		if sh+8 < ew*8 {
			parts = in.tb.Extract(ew*8-1, sh+8, cell)
		}
		if parts == nil {
			parts = bt
		} else {
			parts = in.tb.Concat(parts, bt)
		}
		if sh > 0 {
			parts = in.tb.Concat(parts, in.tb.Extract(sh-1, 0, cell))
		}
		arr.Kids[ci].V = parts
	}
}

// ---- indexing ---------------------------------------------------------------

func (in *Interp) idxTerm(idx *Term, it types.Type) *Term {
	_, signed, _ := intWidth(it)
	return in.tb.Resize(idx, 64, signed)
}

func (in *Interp) boundsOK(i64 *Term, n int) *Term {
	// 0 <= i < n  as unsigned compare on the sign-extended 64-bit index
	return in.tb.Cmp(OpUlt, i64, in.tb.Const(64, uint64(n)))
}

func (in *Interp) indexAddr(base Value, idx *Term, it types.Type) Value {
	i64 := in.idxTerm(idx, it)
	switch b := base.(type) {
	case SliceV:
		in.obligation(in.boundsOK(i64, b.Len), "index out of range")
		if b.VW != 0 {
			if i64.IsConst() {
				return PtrV{N: b.Arr, VW: b.VW, VOff: b.Off + int(i64.C)*b.VW}
			}
			return PtrV{N: b.Arr, VW: b.VW, VOff: b.Off, Sym: i64, Lo: 0, Hi: b.Len}
		}
		if i64.IsConst() {
			return PtrV{N: b.Arr.Kids[b.Off+int(i64.C)]}
		}
		return PtrV{N: b.Arr, Sym: in.tb.Bin(OpAdd, i64, in.tb.Const(64, uint64(b.Off))), Lo: b.Off, Hi: b.Off + b.Len}
	case PtrV: // pointer to array
		p := in.derefable(b)
		n := len(p.N.Kids)
		in.obligation(in.boundsOK(i64, n), "index out of range")
		if i64.IsConst() {
			return PtrV{N: p.N.Kids[int(i64.C)]}
		}
		return PtrV{N: p.N, Sym: i64, Lo: 0, Hi: n}
	case Poison:
		in.unsupportedf("index of poisoned value: %s", b.Why)
	}
	panic(fmt.Sprintf("indexAddr: %T", base))
}

func (in *Interp) indexValue(base Value, idx *Term, it types.Type) Value {
	i64 := in.idxTerm(idx, it)
	switch b := base.(type) {
	case *ArrayV:
		in.obligation(in.boundsOK(i64, len(b.E)), "index out of range")
		if i64.IsConst() {
			return b.E[int(i64.C)]
		}
		if len(b.E) > 0 {
			if _, ok := b.E[0].(*Term); ok && len(b.E) <= in.sh.opts.MaxIteChain {
				res := b.E[len(b.E)-1].(*Term)
				for i := len(b.E) - 2; i >= 0; i-- {
					res = in.tb.Ite(in.tb.Eq(i64, in.tb.Const(64, uint64(i))), b.E[i].(*Term), res)
				}
				return res
			}
		}
		return b.E[int(in.concretize(i64))]
	case *StrV:
		in.obligation(in.boundsOK(i64, len(b.B)), "index out of range")
		if i64.IsConst() {
			return b.B[int(i64.C)]
		}
		res := b.B[len(b.B)-1]
		for i := len(b.B) - 2; i >= 0; i-- {
			res = in.tb.Ite(in.tb.Eq(i64, in.tb.Const(64, uint64(i))), b.B[i], res)
		}
		return res
	}
	panic(fmt.Sprintf("indexValue: %T", base))
}

// ---- slices -----------------------------------------------------------------

func (in *Interp) makeSlice(et types.Type, lv, cv Value) Value {
	lt, ct := lv.(*Term), cv.(*Term)
	capLimit := in.sh.opts.AllocCap
	if !lt.IsConst() {
		l64 := in.tb.Resize(lt, 64, true)
		// negative length panics
		in.obligation(in.tb.Cmp(OpSle, in.tb.Const(64, 0), l64), "makeslice: len out of range")
		// allocation amplification: reported as a note (no sanitizer confirms an OOM), see DESIGN.md §2.6
		if in.sol.CheckWith(in.tb.Cmp(OpUlt, in.tb.Const(64, uint64(capLimit)), l64)) == Sat {
			in.sh.noteAlloc(in.siteString())
		}
		// symbolic lengths above the bound are outside the claim (cut, counted)
		bound := in.makeBound
		if bound == 0 {
			bound = 64
		}
		if !in.branch(in.tb.Cmp(OpUle, l64, in.tb.Const(64, uint64(bound)))) {
			panic(cutPath{fmt.Sprintf("symbolic allocation length > %d at %s", bound, in.siteFunc())})
		}
	}
	n := in.concInt(lt, "make len")
	c := n
	if ct != lt {
		c = in.concInt(ct, "make cap")
	}
	if n < 0 || c < n {
		in.obligation(in.tb.Bool(false), "makeslice: len out of range")
		panic(abortPath{"makeslice"})
	}
	if c > capLimit {
		in.obligation(in.tb.Bool(false), "makeslice: allocation above cap")
		panic(abortPath{"makeslice"})
	}
	arr := in.newArrayNode(et, c)
	return SliceV{Arr: arr, Off: 0, Len: n, Cap: c}
}

func (in *Interp) sliceOp(fr *Frame, x *ssa.Slice) Value {
	base := in.get(fr, x.X)
	optInt := func(v ssa.Value) (*Term, bool) {
		if v == nil {
			return nil, false
		}
		t := in.get(fr, v).(*Term)
		_, signed, _ := intWidth(v.Type())
		return in.tb.Resize(t, 64, signed), true
	}
	lo, hasLo := optInt(x.Low)
	hi, hasHi := optInt(x.High)
	mx, hasMax := optInt(x.Max)
	if !hasLo {
		lo = in.tb.Const(64, 0)
	}
	var ln, cp int
	var sv SliceV
	var str *StrV
	switch b := base.(type) {
	case SliceV:
		ln, cp, sv = b.Len, b.Cap, b
	case *StrV:
		ln, cp, str = len(b.B), len(b.B), b
	case PtrV: // pointer to array
		p := in.derefable(b)
		ln, cp = len(p.N.Kids), len(p.N.Kids)
		sv = SliceV{Arr: p.N, Off: 0, Len: ln, Cap: cp}
	case Poison:
		in.unsupportedf("slice of poisoned value")
	default:
		panic(fmt.Sprintf("sliceOp: %T", base))
	}
	if !hasHi {
		hi = in.tb.Const(64, uint64(ln))
	}
	if !hasMax {
		mx = in.tb.Const(64, uint64(cp))
	}
	limit := cp
	if str != nil {
		limit = ln
	}
	// 0 <= lo <= hi <= max <= cap   (signed compare; all 64-bit)
	safe := in.tb.And(
		in.tb.Cmp(OpSle, in.tb.Const(64, 0), lo),
		in.tb.Cmp(OpSle, lo, hi),
		in.tb.Cmp(OpSle, hi, mx),
		in.tb.Cmp(OpSle, mx, in.tb.Const(64, uint64(limit))),
	)
	in.obligation(safe, "slice bounds out of range")
	l := in.concInt(lo, "slice lo")
	h := in.concInt(hi, "slice hi")
	m := in.concInt(mx, "slice max")
	if str != nil {
		return &StrV{B: str.B[l:h]}
	}
	if sv.Arr == nil {
		return SliceV{}
	}
	if sv.VW != 0 {
		return SliceV{Arr: sv.Arr, Off: sv.Off + l*sv.VW, Len: h - l, Cap: m - l, VW: sv.VW}
	}
	return SliceV{Arr: sv.Arr, Off: sv.Off + l, Len: h - l, Cap: m - l}
}

// sliceElem loads element i (concrete) of a slice.
func (in *Interp) sliceGet(s SliceV, i int) Value {
	if s.VW != 0 {
		return in.readBytes(s.Arr, s.Off+i*s.VW, s.VW)
	}
	return in.loadNode(s.Arr.Kids[s.Off+i])
}

func (in *Interp) sliceSet(s SliceV, i int, v Value) {
	if s.VW != 0 {
		in.writeBytes(s.Arr, s.Off+i*s.VW, s.VW, v.(*Term))
		return
	}
	in.storeNode(s.Arr.Kids[s.Off+i], v)
}

func sliceElemType(s SliceV) types.Type {
	return s.Arr.T.Underlying().(*types.Array).Elem()
}

func (in *Interp) appendOp(a Value, b Value, st types.Type) Value {
	s := a.(SliceV)
	et := st.Underlying().(*types.Slice).Elem()
	var addN int
	var getB func(i int) Value
	switch bv := b.(type) {
	case SliceV:
		addN = bv.Len
		getB = func(i int) Value { return in.sliceGet(bv, i) }
	case *StrV:
		addN = len(bv.B)
		getB = func(i int) Value { return bv.B[i] }
	default:
		panic(fmt.Sprintf("append: %T", b))
	}
	if addN == 0 {
		return s
	}
	if s.Arr != nil && s.Len+addN <= s.Cap && s.VW == 0 {
		// snapshot b first (may alias)
		vals := make([]Value, addN)
		for i := range vals {
			vals[i] = getB(i)
		}
		for i := range vals {
			in.storeNode(s.Arr.Kids[s.Off+s.Len+i], vals[i])
		}
		return SliceV{Arr: s.Arr, Off: s.Off, Len: s.Len + addN, Cap: s.Cap}
	}
	newCap := s.Len + addN
	if in.sh.opts.AppendSlack && newCap < 2*s.Cap {
		newCap = 2 * s.Cap
	}
	arr := in.newArrayNode(et, newCap)
	for i := 0; i < s.Len; i++ {
		in.storeNode(arr.Kids[i], in.sliceGet(s, i))
	}
	for i := 0; i < addN; i++ {
		in.storeNode(arr.Kids[s.Len+i], getB(i))
	}
	return SliceV{Arr: arr, Off: 0, Len: s.Len + addN, Cap: newCap}
}

func (in *Interp) copyOp(dst Value, src Value) Value {
	d := dst.(SliceV)
	var n int
	var get func(i int) Value
	switch s := src.(type) {
	case SliceV:
		n = s.Len
		get = func(i int) Value { return in.sliceGet(s, i) }
	case *StrV:
		n = len(s.B)
		get = func(i int) Value { return s.B[i] }
	}
	if d.Len < n {
		n = d.Len
	}
	vals := make([]Value, n)
	for i := 0; i < n; i++ {
		vals[i] = get(i)
	}
	for i := 0; i < n; i++ {
		in.sliceSet(d, i, vals[i])
	}
	return in.tb.Const(64, uint64(n))
}

// ---- maps -------------------------------------------------------------------

func (in *Interp) mapFind(m *MapObj, key Value) *MapEntry {
	if m == nil {
		return nil
	}
	for _, e := range m.Entries {
		if e.Deleted {
			continue
		}
		eq := in.eqValue(e.K, key)
		if eq.IsFalse() {
			continue
		}
		if in.branch(eq) {
			return e
		}
	}
	return nil
}

func (in *Interp) mapUpdate(mv Value, key, val Value) {
	m, ok := mv.(*MapObj)
	if !ok {
		if po, isP := mv.(Poison); isP {
			in.unsupportedf("map update on poisoned value: %s", po.Why)
		}
		panic(fmt.Sprintf("mapUpdate: %T", mv))
	}
	if m == nil {
		in.obligation(in.tb.Bool(false), "assignment to entry in nil map")
		panic(abortPath{"nil map"})
	}
	if e := in.mapFind(m, key); e != nil {
		e.V = val
		return
	}
	m.Entries = append(m.Entries, &MapEntry{K: key, V: val})
	if len(m.Entries) > 4096 {
		// compact deleted entries
		var live []*MapEntry
		for _, e := range m.Entries {
			if !e.Deleted {
				live = append(live, e)
			}
		}
		m.Entries = live
	}
}

func (in *Interp) lookup(x *ssa.Lookup, base Value, key Value) Value {
	switch b := base.(type) {
	case *StrV:
		return in.indexValue(b, key.(*Term), x.Index.Type())
	case *MapObj:
		vt := x.X.Type().Underlying().(*types.Map).Elem()
		e := in.mapFind(b, key)
		var v Value
		if e != nil {
			v = e.V
		} else {
			v = in.zero(vt)
		}
		if x.CommaOk {
			return TupleV{v, in.tb.Bool(e != nil)}
		}
		return v
	case Poison:
		in.unsupportedf("lookup in poisoned map: %s", b.Why)
	}
	panic(fmt.Sprintf("lookup: %T", base))
}

func (in *Interp) makeRange(v Value) Value {
	switch b := v.(type) {
	case *MapObj:
		it := &RangeIter{M: b}
		if b != nil {
			for _, e := range b.Entries {
				if !e.Deleted {
					it.Ents = append(it.Ents, e)
				}
			}
			if in.mapOrderAll && len(it.Ents) > 1 {
				if len(it.Ents) > in.sh.opts.MaxPermute {
					in.unsupportedf("map order enumeration over %d entries", len(it.Ents))
				}
				// symbolic permutation via successive choices
				rest := append([]*MapEntry{}, it.Ents...)
				var perm []*MapEntry
				for len(rest) > 0 {
					k := in.choose(len(rest))
					perm = append(perm, rest[k])
					rest = append(rest[:k], rest[k+1:]...)
				}
				it.Ents = perm
			}
		}
		return it
	case *StrV:
		return &RangeIter{S: b}
	}
	panic(fmt.Sprintf("makeRange: %T", v))
}

func (in *Interp) rangeNext(x *ssa.Next, it *RangeIter) Value {
	if x.IsString {
		if it.I >= len(it.S.B) {
			return TupleV{in.tb.Bool(false), in.tb.Const(64, 0), in.tb.Const(32, 0)}
		}
		b := it.S.B[it.I]
		if !b.IsConst() {
			// assume ASCII
			in.obligationNote(in.tb.Cmp(OpUlt, b, in.tb.Const(8, 0x80)), "non-ASCII byte in range over symbolic string")
		} else if b.C >= 0x80 {
			in.unsupportedf("range over non-ASCII string")
		}
		i := it.I
		it.I++
		return TupleV{in.tb.Bool(true), in.tb.Const(64, uint64(i)), in.tb.Zext(24, b)}
	}
	for it.I < len(it.Ents) {
		e := it.Ents[it.I]
		it.I++
		if e.Deleted {
			continue
		}
		return TupleV{in.tb.Bool(true), e.K, e.V}
	}
	mt := it.M
	var kz, vz Value = in.tb.Const(64, 0), in.tb.Const(64, 0)
	if mt != nil {
		kz, vz = in.zero(mt.KT), in.zero(mt.VT)
	}
	return TupleV{in.tb.Bool(false), kz, vz}
}

// obligationNote: a modelling restriction (not a program panic): paths violating it are cut and the run is tainted if feasible.
func (in *Interp) obligationNote(c *Term, why string) {
	if c.IsTrue() {
		return
	}
	if in.sol.CheckWith(in.tb.Not(c)) != Unsat {
		in.taint("model restriction: " + why)
	}
	in.assume(c)
}

// ---- equality -----------------------------------------------------------------

func (in *Interp) eqValue(a, b Value) *Term {
	switch x := a.(type) {
	case *Term:
		y, ok := b.(*Term)
		if !ok {
			panic(fmt.Sprintf("eqValue: Term vs %T", b))
		}
		if x.W != y.W {
			panic(fmt.Sprintf("eqValue: width %d vs %d", x.W, y.W))
		}
		return in.tb.Eq(x, y)
	case FloatV:
		return in.tb.Bool(x.F == b.(FloatV).F)
	case *StrV:
		y := b.(*StrV)
		if len(x.B) != len(y.B) {
			return in.tb.Bool(false)
		}
		cs := make([]*Term, len(x.B))
		for i := range x.B {
			cs[i] = in.tb.Eq(x.B[i], y.B[i])
		}
		return in.tb.And(cs...)
	case *StructV:
		y := b.(*StructV)
		cs := make([]*Term, len(x.F))
		for i := range x.F {
			cs[i] = in.eqValue(x.F[i], y.F[i])
		}
		return in.tb.And(cs...)
	case *ArrayV:
		y := b.(*ArrayV)
		cs := make([]*Term, len(x.E))
		for i := range x.E {
			cs[i] = in.eqValue(x.E[i], y.E[i])
		}
		return in.tb.And(cs...)
	case PtrV:
		y, ok := b.(PtrV)
		if !ok {
			return in.tb.Bool(false)
		}
		if x.Sym != nil || y.Sym != nil {
			in.unsupportedf("comparison of symbolic-index pointers")
		}
		return in.tb.Bool(x.N == y.N && x.VW == y.VW && x.VOff == y.VOff)
	case SliceV:
		y := b.(SliceV)
		// only comparison with nil is legal
		if y.Arr == nil {
			return in.tb.Bool(x.Arr == nil)
		}
		return in.tb.Bool(y.Arr == nil && x.Arr == nil)
	case *MapObj:
		y := b.(*MapObj)
		return in.tb.Bool(x == y)
	case *ChanObj:
		return in.tb.Bool(x == b.(*ChanObj))
	case *FuncV:
		y := b.(*FuncV)
		return in.tb.Bool(x == nil && y == nil)
	case IfaceV:
		y, ok := b.(IfaceV)
		if !ok {
			return in.tb.Bool(false)
		}
		if x.T == nil || y.T == nil {
			return in.tb.Bool(x.T == nil && y.T == nil)
		}
		if !types.Identical(x.T, y.T) {
			return in.tb.Bool(false)
		}
		return in.eqValue(x.V, y.V)
	case Poison:
		in.unsupportedf("comparison of poisoned value: %s", x.Why)
	}
	panic(fmt.Sprintf("eqValue: %T", a))
}

// ---- operators ----------------------------------------------------------------

func (in *Interp) binop(op token.Token, a, b Value, at, bt types.Type) Value {
	switch x := a.(type) {
	case *Term:
		y, ok := b.(*Term)
		if !ok {
			if po, isP := b.(Poison); isP {
				in.unsupportedf("poisoned operand: %s", po.Why)
			}
			panic(fmt.Sprintf("binop %v: Term vs %T", op, b))
		}
		return in.intBinop(op, x, y, at, bt)
	case FloatV:
		y := b.(FloatV)
		switch op {
		case token.ADD:
			return in.roundFloat(x.F+y.F, at)
		case token.SUB:
			return in.roundFloat(x.F-y.F, at)
		case token.MUL:
			return in.roundFloat(x.F*y.F, at)
		case token.QUO:
			return in.roundFloat(x.F/y.F, at)
		case token.EQL:
			return in.tb.Bool(x.F == y.F)
		case token.NEQ:
			return in.tb.Bool(x.F != y.F)
		case token.LSS:
			return in.tb.Bool(x.F < y.F)
		case token.LEQ:
			return in.tb.Bool(x.F <= y.F)
		case token.GTR:
			return in.tb.Bool(x.F > y.F)
		case token.GEQ:
			return in.tb.Bool(x.F >= y.F)
		}
	case *StrV:
		y := b.(*StrV)
		switch op {
		case token.ADD:
			nb := make([]*Term, 0, len(x.B)+len(y.B))
			nb = append(nb, x.B...)
			nb = append(nb, y.B...)
			return &StrV{B: nb}
		case token.EQL:
			return in.eqValue(x, y)
		case token.NEQ:
			return in.tb.Not(in.eqValue(x, y))
		case token.LSS:
			return in.strLess(x.B, y.B, false)
		case token.LEQ:
			return in.strLess(x.B, y.B, true)
		case token.GTR:
			return in.strLess(y.B, x.B, false)
		case token.GEQ:
			return in.strLess(y.B, x.B, true)
		}
	case Poison:
		in.unsupportedf("poisoned operand: %s", x.Why)
	}
	switch op {
	case token.EQL:
		return in.eqValue(a, b)
	case token.NEQ:
		return in.tb.Not(in.eqValue(a, b))
	}
	panic(fmt.Sprintf("binop %v on %T", op, a))
}

func (in *Interp) roundFloat(f float64, t types.Type) Value {
	if b, ok := t.Underlying().(*types.Basic); ok && b.Kind() == types.Float32 {
		return FloatV{float64(float32(f))}
	}
	return FloatV{f}
}

// strLess: lexicographic compare of byte vectors (lengths concrete).
func (in *Interp) strLess(x, y []*Term, orEqual bool) *Term {
	// result for position i onwards
	n := len(x)
	if len(y) < n {
		n = len(y)
	}
	var tail *Term
	if len(x) < len(y) {
		tail = in.tb.Bool(true)
	} else if len(x) == len(y) {
		tail = in.tb.Bool(orEqual)
	} else {
		tail = in.tb.Bool(false)
	}
	res := tail
	for i := n - 1; i >= 0; i-- {
		lt := in.tb.Cmp(OpUlt, x[i], y[i])
		eq := in.tb.Eq(x[i], y[i])
		res = in.tb.Or(lt, in.tb.And(eq, res))
	}
	return res
}

// cmp3 returns a 64-bit term -1/0/+1 for bytes.Compare semantics.
func (in *Interp) cmp3(x, y []*Term) *Term {
	lt := in.strLess(x, y, false)
	gt := in.strLess(y, x, false)
	return in.tb.Ite(lt, in.tb.Const(64, ^uint64(0)), in.tb.Ite(gt, in.tb.Const(64, 1), in.tb.Const(64, 0)))
}

func (in *Interp) intBinop(op token.Token, x, y *Term, at, bt types.Type) Value {
	_, signed, _ := intWidth(at)
	if x.W == 0 { // bool
		switch op {
		case token.EQL:
			return in.tb.Eq(x, y)
		case token.NEQ:
			return in.tb.Ne(x, y)
		case token.AND, token.LAND:
			return in.tb.And(x, y)
		case token.OR, token.LOR:
			return in.tb.Or(x, y)
		}
		panic(fmt.Sprintf("bool binop %v", op))
	}
	switch op {
	case token.SHL, token.SHR:
		_, ysigned, _ := intWidth(bt)
		cnt := y
		if ysigned {
			in.obligation(in.tb.Cmp(OpSle, in.tb.Const(y.W, 0), y), "negative shift amount")
		}
		w := x.W
		if cnt.W > w {
			big := in.tb.Cmp(OpUle, in.tb.Const(cnt.W, uint64(w)), cnt)
			cnt = in.tb.Ite(big, in.tb.Const(w, uint64(w)), in.tb.Extract(w-1, 0, cnt))
		} else if cnt.W < w {
			cnt = in.tb.Zext(w-cnt.W, cnt)
		}
		if op == token.SHL {
			return in.tb.Bin(OpShl, x, cnt)
		}
		if signed {
			return in.tb.Bin(OpAshr, x, cnt)
		}
		return in.tb.Bin(OpLshr, x, cnt)
	}
	if x.W != y.W {
		panic(fmt.Sprintf("intBinop %v width mismatch %d/%d", op, x.W, y.W))
	}
	switch op {
	case token.ADD:
		return in.tb.Bin(OpAdd, x, y)
	case token.SUB:
		return in.tb.Bin(OpSub, x, y)
	case token.MUL:
		return in.tb.Bin(OpMul, x, y)
	case token.QUO:
		in.obligation(in.tb.Ne(y, in.tb.Const(y.W, 0)), "integer divide by zero")
		if signed {
			return in.tb.Bin(OpSDiv, x, y)
		}
		return in.tb.Bin(OpUDiv, x, y)
	case token.REM:
		in.obligation(in.tb.Ne(y, in.tb.Const(y.W, 0)), "integer divide by zero")
		if signed {
			return in.tb.Bin(OpSRem, x, y)
		}
		return in.tb.Bin(OpURem, x, y)
	case token.AND:
		return in.tb.Bin(OpBAnd, x, y)
	case token.OR:
		return in.tb.Bin(OpBOr, x, y)
	case token.XOR:
		return in.tb.Bin(OpBXor, x, y)
	case token.AND_NOT:
		return in.tb.Bin(OpBAnd, x, in.tb.BNot(y))
	case token.EQL:
		return in.tb.Eq(x, y)
	case token.NEQ:
		return in.tb.Ne(x, y)
	case token.LSS:
		if signed {
			return in.tb.Cmp(OpSlt, x, y)
		}
		return in.tb.Cmp(OpUlt, x, y)
	case token.LEQ:
		if signed {
			return in.tb.Cmp(OpSle, x, y)
		}
		return in.tb.Cmp(OpUle, x, y)
	case token.GTR:
		if signed {
			return in.tb.Cmp(OpSlt, y, x)
		}
		return in.tb.Cmp(OpUlt, y, x)
	case token.GEQ:
		if signed {
			return in.tb.Cmp(OpSle, y, x)
		}
		return in.tb.Cmp(OpUle, y, x)
	}
	panic(fmt.Sprintf("intBinop: %v", op))
}

func (in *Interp) unop(x *ssa.UnOp, v Value) Value {
	switch x.Op {
	case token.MUL:
		return in.load(v)
	case token.NOT:
		return in.tb.Not(v.(*Term))
	case token.SUB:
		if f, ok := v.(FloatV); ok {
			return FloatV{-f.F}
		}
		return in.tb.Neg(v.(*Term))
	case token.XOR:
		return in.tb.BNot(v.(*Term))
	case token.ARROW:
		return in.chanRecv(v.(*ChanObj), x.CommaOk)
	}
	panic(fmt.Sprintf("unop %v", x.Op))
}

func (in *Interp) convert(v Value, from, to types.Type) Value {
	fu, tu := from.Underlying(), to.Underlying()
	if tp, ok := tu.(*types.TypeParam); ok {
		_ = tp
		in.unsupportedf("convert to type parameter")
	}
	switch x := v.(type) {
	case *Term:
		if w, _, ok := intWidth(to); ok && w > 0 {
			_, fsigned, _ := intWidth(from)
			return in.tb.Resize(x, w, fsigned)
		}
		if isFloat(to) {
			if !x.IsConst() {
				in.unsupportedf("symbolic int to float conversion")
			}
			_, fsigned, _ := intWidth(from)
			if fsigned {
				return in.roundFloat(float64(signExt(x.C, x.W)), to)
			}
			return in.roundFloat(float64(x.C), to)
		}
		if isString(to) {
			// rune/byte to string
			if !x.IsConst() {
				in.unsupportedf("symbolic rune to string conversion")
			}
			return in.strConst(string(rune(signExt(x.C, x.W))))
		}
		if b, ok := tu.(*types.Basic); ok && b.Kind() == types.UnsafePointer {
			in.unsupportedf("uintptr to unsafe.Pointer")
		}
	case FloatV:
		if isFloat(to) {
			return in.roundFloat(x.F, to)
		}
		if w, signed, ok := intWidth(to); ok && w > 0 {
			if signed {
				return in.tb.Const(w, uint64(int64(x.F)))
			}
			if x.F < 0 {
				return in.tb.Const(w, uint64(int64(x.F)))
			}
			if x.F >= math.Exp2(63) {
				return in.tb.Const(w, uint64(x.F))
			}
			return in.tb.Const(w, uint64(int64(x.F)))
		}
	case *StrV:
		if isString(to) {
			return x
		}
		if sl, ok := tu.(*types.Slice); ok {
			if w, _, _ := intWidth(sl.Elem()); w == 8 {
				arr := in.newArrayNode(sl.Elem(), len(x.B))
				for i, b := range x.B {
					arr.Kids[i].V = b
				}
				if len(x.B) == 0 {
					return SliceV{Arr: arr}
				}
				return SliceV{Arr: arr, Len: len(x.B), Cap: len(x.B)}
			}
			if w, _, _ := intWidth(sl.Elem()); w == 32 {
				s, ok := x.Concrete()
				if !ok {
					in.unsupportedf("symbolic string to []rune")
				}
				rs := []rune(s)
				arr := in.newArrayNode(sl.Elem(), len(rs))
				for i, r := range rs {
					arr.Kids[i].V = in.tb.Const(32, uint64(r))
				}
				return SliceV{Arr: arr, Len: len(rs), Cap: len(rs)}
			}
		}
	case SliceV:
		if isString(to) {
			et := from.Underlying().(*types.Slice).Elem()
			if w, _, _ := intWidth(et); w == 8 {
				b := make([]*Term, x.Len)
				for i := range b {
					b[i] = in.sliceGet(x, i).(*Term)
				}
				return &StrV{B: b}
			}
			in.unsupportedf("[]rune to string")
		}
		if _, ok := tu.(*types.Slice); ok {
			return x
		}
	case PtrV:
		if _, ok := tu.(*types.Pointer); ok {
			if fb, ok := fu.(*types.Basic); ok && fb.Kind() == types.UnsafePointer {
				// unsafe.Pointer -> *T : allowed only when the pointee type is unchanged
				if x.N != nil && !types.Identical(x.N.T, tu.(*types.Pointer).Elem()) {
					in.unsupportedf("unsafe pointer cast from %v to %v", x.N.T, tu)
				}
			}
			return x
		}
		if b, ok := tu.(*types.Basic); ok && b.Kind() == types.UnsafePointer {
			return x
		}
		if b, ok := tu.(*types.Basic); ok && b.Kind() == types.Uintptr {
			in.unsupportedf("pointer to uintptr")
		}
	case Poison:
		return x
	}
	in.unsupportedf("convert %v -> %v (%T)", from, to, v)
	return nil
}

func (in *Interp) typeAssert(x *ssa.TypeAssert, v Value) Value {
	iv, ok := v.(IfaceV)
	if !ok {
		if po, isP := v.(Poison); isP {
			in.unsupportedf("type assert on poisoned value: %s", po.Why)
		}
		panic(fmt.Sprintf("typeAssert: %T", v))
	}
	okk := false
	var res Value
	if iv.T != nil {
		if types.IsInterface(x.AssertedType) {
			it := x.AssertedType.Underlying().(*types.Interface)
			if types.Implements(iv.T, it) {
				okk, res = true, iv
			}
		} else if types.Identical(iv.T, x.AssertedType) {
			okk, res = true, iv.V
		}
	}
	if x.CommaOk {
		if !okk {
			res = in.zero(x.AssertedType)
		}
		return TupleV{res, in.tb.Bool(okk)}
	}
	if !okk {
		in.obligation(in.tb.Bool(false), "interface conversion (failed type assertion)")
		panic(abortPath{"type assertion"})
	}
	return res
}

// ---- calls ------------------------------------------------------------------------

func (in *Interp) prepareCall(fr *Frame, c *ssa.CallCommon) (*FuncV, []Value) {
	var args []Value
	var fv *FuncV
	if c.IsInvoke() {
		recv := in.get(fr, c.Value)
		iv, ok := recv.(IfaceV)
		if !ok {
			if po, isP := recv.(Poison); isP {
				in.unsupportedf("invoke on poisoned value: %s", po.Why)
			}
			panic(fmt.Sprintf("invoke on %T", recv))
		}
		if iv.T == nil {
			in.obligation(in.tb.Bool(false), "nil pointer dereference (method call on nil interface)")
			panic(abortPath{"nil iface"})
		}
		m := in.prog.LookupMethod(iv.T, c.Method.Pkg(), c.Method.Name())
		if m == nil {
			in.unsupportedf("method %s not found on %v", c.Method.Name(), iv.T)
		}
		fv = &FuncV{Fn: m}
		args = append(args, iv.V)
	} else {
		switch f := in.get(fr, c.Value).(type) {
		case *FuncV:
			fv = f
		case Poison:
			in.unsupportedf("call of poisoned function value: %s", f.Why)
		default:
			panic(fmt.Sprintf("call of %T", f))
		}
		if fv == nil {
			in.obligation(in.tb.Bool(false), "nil func call")
			panic(abortPath{"nil func"})
		}
	}
	for _, a := range c.Args {
		args = append(args, in.get(fr, a))
	}
	return fv, args
}

func (in *Interp) invokeFuncV(fv *FuncV, args []Value) Value {
	if fv.Builtin != nil {
		return in.builtin(fv.Builtin, args, nil)
	}
	return in.callFunction(fv.Fn, args, fv.Bindings)
}

func (in *Interp) doCall(fr *Frame, c *ssa.CallCommon, site *ssa.Call) Value {
	if b, ok := c.Value.(*ssa.Builtin); ok {
		args := make([]Value, len(c.Args))
		for i, a := range c.Args {
			args[i] = in.get(fr, a)
		}
		return in.builtin(b, args, c)
	}
	fv, args := in.prepareCall(fr, c)
	return in.invokeFuncV(fv, args)
}

func (in *Interp) builtin(b *ssa.Builtin, args []Value, c *ssa.CallCommon) Value {
	switch b.Name() {
	case "len":
		switch x := args[0].(type) {
		case SliceV:
			return in.tb.Const(64, uint64(x.Len))
		case *StrV:
			return in.tb.Const(64, uint64(len(x.B)))
		case *MapObj:
			if x == nil {
				return in.tb.Const(64, 0)
			}
			return in.tb.Const(64, uint64(x.Len()))
		case *ArrayV:
			return in.tb.Const(64, uint64(len(x.E)))
		case PtrV:
			if x.N == nil {
				// len of nil *array is the array length from the type
				return in.tb.Const(64, uint64(c.Args[0].Type().Underlying().(*types.Pointer).Elem().Underlying().(*types.Array).Len()))
			}
			return in.tb.Const(64, uint64(len(x.N.Kids)))
		case *ChanObj:
			if x == nil {
				return in.tb.Const(64, 0)
			}
			return in.tb.Const(64, uint64(len(x.Q)))
		case Poison:
			in.unsupportedf("len of poisoned value: %s", x.Why)
		}
	case "cap":
		switch x := args[0].(type) {
		case SliceV:
			return in.tb.Const(64, uint64(x.Cap))
		case *ArrayV:
			return in.tb.Const(64, uint64(len(x.E)))
		case PtrV:
			return in.tb.Const(64, uint64(len(x.N.Kids)))
		case *ChanObj:
			if x == nil {
				return in.tb.Const(64, 0)
			}
			return in.tb.Const(64, uint64(x.Cap))
		}
	case "append":
		return in.appendOp(args[0], args[1], c.Args[0].Type())
	case "copy":
		return in.copyOp(args[0], args[1])
	case "delete":
		m := args[0].(*MapObj)
		if e := in.mapFind(m, args[1]); e != nil {
			e.Deleted = true
		}
		return TupleV{}
	case "panic":
		in.explicitPanic(args[0])
	case "recover":
		if in.curPanic != nil {
			gp := in.curPanic
			in.curPanic = nil
			return gp.val
		}
		return IfaceV{}
	case "print", "println":
		return TupleV{}
	case "min", "max":
		res := args[0]
		for _, a := range args[1:] {
			switch x := res.(type) {
			case *Term:
				y := a.(*Term)
				_, signed, _ := intWidth(c.Args[0].Type())
				var lt *Term
				if signed {
					lt = in.tb.Cmp(OpSlt, x, y)
				} else {
					lt = in.tb.Cmp(OpUlt, x, y)
				}
				if b.Name() == "min" {
					res = in.tb.Ite(lt, x, y)
				} else {
					res = in.tb.Ite(lt, y, x)
				}
			case FloatV:
				y := a.(FloatV)
				if b.Name() == "min" {
					res = FloatV{math.Min(x.F, y.F)}
				} else {
					res = FloatV{math.Max(x.F, y.F)}
				}
			default:
				in.unsupportedf("min/max on %T", res)
			}
		}
		return res
	case "clear":
		switch x := args[0].(type) {
		case *MapObj:
			for _, e := range x.Entries {
				e.Deleted = true
			}
		case SliceV:
			for i := 0; i < x.Len; i++ {
				in.sliceSet(x, i, in.zero(sliceElemType(x)))
			}
		}
		return TupleV{}
	case "close":
		ch := args[0].(*ChanObj)
		if ch == nil || ch.Closed {
			in.obligation(in.tb.Bool(false), "close of nil or closed channel")
			panic(abortPath{"close"})
		}
		ch.Closed = true
		in.schedNotify()
		return TupleV{}
	case "ssa:wrapnilchk":
		p := args[0].(PtrV)
		if p.N == nil {
			in.obligation(in.tb.Bool(false), "nil pointer dereference (value method on nil pointer)")
			panic(abortPath{"wrapnilchk"})
		}
		return p
	}
	in.unsupportedf("builtin %s on %T", b.Name(), args[0])
	return nil
}

// ---- violations -----------------------------------------------------------------------

func (in *Interp) recordViolation(kind, label, msg string) {
	// need a model of the current path condition
	if r := in.sol.Check(); r != Sat {
		if r == Unknown {
			in.taint("solver unknown when extracting violation model")
		} else {
			// the path condition itself is unsatisfiable: the check holds vacuously on this (infeasible) path
			in.sh.stats.add("discharged", 1)
		}
		return
	}
	in.recordViolationFromModel(kind, label, msg)
}

func (in *Interp) recordViolationFromModel(kind, label, msg string) {
	inputs, err := in.modelInputs()
	if err != nil {
		in.taint("model extraction failed: " + err.Error())
		return
	}
	v := Violation{Harness: in.harness, Params: in.params, Kind: kind, Label: label, Site: in.siteString(), Inputs: inputs}
	if kind == "panic" {
		v.Label = label + " in " + in.siteFunc()
	}
	var tr []string
	for i := len(in.stack) - 1; i >= 0 && len(tr) < 8; i-- {
		tr = append(tr, in.stack[i].String())
	}
	v.Trace = tr
	_ = msg
	in.sh.addViolation(v)
}

// modelInputs reads the values of all declared inputs from the solver's current model.
func (in *Interp) modelInputs() (map[string]string, error) {
	out := map[string]string{}
	for _, iv := range in.inputs {
		vals, err := in.sol.Values(iv.Terms)
		if err != nil {
			return nil, err
		}
		if iv.Kind == "u" {
			out[iv.Name] = fmt.Sprintf("%d", vals[0])
		} else {
			var sb strings.Builder
			sb.WriteString("x")
			for _, b := range vals {
				fmt.Fprintf(&sb, "%02x", b&0xff)
			}
			out[iv.Name] = sb.String()
		}
	}
	// record the decisions that are not data (choices) so replay can follow them
	var ch []string
	for _, d := range in.ex.prefix[:in.ex.pos] {
		if d.kind == dChoose {
			ch = append(ch, fmt.Sprint(d.val))
		}
	}
	if len(ch) > 0 {
		out["__choices"] = strings.Join(ch, ",")
	}
	return out, nil
}

func sortedKeys(m map[string]bool) []string {
	var ks []string
	for k := range m {
		ks = append(ks, k)
	}
	sort.Strings(ks)
	return ks
}
