package main

// Incremental SMT solver process (z3 -in by default) with scoped definitions.

import (
	"bufio"
	"fmt"
	"io"
	"os"
	"os/exec"
	"strconv"
	"strings"
	"time"
)

type SatResult int

const (
	Sat SatResult = iota
	Unsat
	Unknown
)

func (r SatResult) String() string { return [...]string{"sat", "unsat", "unknown"}[r] }

type Solver struct {
	cmd     *exec.Cmd
	in      io.WriteCloser
	w       *bufio.Writer
	out     *bufio.Reader
	scopes  []map[int64]bool  // term ids defined per scope
	vscopes []map[string]bool // declared vars per scope
	log     *bufio.Writer     // optional transcript
	logf    *os.File
	LogCap     int  // stop the transcript at the first path boundary after this many bytes (0: no cap)
	logBytes   int
	logStopped bool

	// statistics
	NQueries, NSat, NUnsat, NUnknown int
	Tag                              string
	ByTag                            map[string]int
	TimeByTag                        map[string]time.Duration
	Time                             time.Duration
	Errors                           []string
	timeoutMs                        int
	transcript                       []string // current assertion stack as text (for cross-check dumps)
	tmarks                           []int
	keepTranscript                   bool
}

func solverArgv(kind string) []string {
	switch kind {
	case "z3-new":
		return []string{"z3-new", "-in"}
	case "cvc5":
		return []string{"cvc5", "--incremental", "--lang=smt2", "--produce-models"}
	default:
		return []string{"z3", "-in"}
	}
}

func NewSolver(kind string, timeoutMs int, logPath string) (*Solver, error) {
	argv := solverArgv(kind)
	cmd := exec.Command(argv[0], argv[1:]...)
	in, err := cmd.StdinPipe()
	if err != nil {
		return nil, err
	}
	outp, err := cmd.StdoutPipe()
	if err != nil {
		return nil, err
	}
	cmd.Stderr = nil
	if err := cmd.Start(); err != nil {
		return nil, err
	}
	s := &Solver{cmd: cmd, in: in, w: bufio.NewWriterSize(in, 1<<16), out: bufio.NewReaderSize(outp, 1<<16), timeoutMs: timeoutMs}
	s.scopes = []map[int64]bool{{}}
	s.vscopes = []map[string]bool{{}}
	if logPath != "" {
		f, err := os.Create(logPath)
		if err == nil {
			s.logf = f
			s.log = bufio.NewWriter(f)
		}
	}
	if kind == "cvc5" {
		s.send("(set-logic ALL)")
		s.send(fmt.Sprintf("(set-option :tlimit-per %d)", timeoutMs))
	} else {
		s.send(fmt.Sprintf("(set-option :timeout %d)", timeoutMs))
	}
	s.send("(set-option :produce-models true)")
	return s, nil
}

func (s *Solver) Close() {
	if s.in != nil {
		s.in.Close()
	}
	if s.cmd != nil && s.cmd.Process != nil {
		s.cmd.Process.Kill()
		s.cmd.Wait()
	}
	if s.log != nil {
		s.log.Flush()
		s.logf.Close()
	}
}

func (s *Solver) send(line string) {
	if s.log != nil && !s.logStopped {
		s.log.WriteString(line)
		s.log.WriteString("\n")
		s.logBytes += len(line) + 1
	}
	if s.keepTranscript && !strings.HasPrefix(line, "(check-sat") && !strings.HasPrefix(line, "(get-value") {
		s.transcript = append(s.transcript, line)
	}
	s.w.WriteString(line)
	s.w.WriteString("\n")
}

func (s *Solver) readLine() string {
	s.w.Flush()
	line, err := s.out.ReadString('\n')
	if err != nil {
		s.Errors = append(s.Errors, "solver pipe: "+err.Error())
		return "unknown"
	}
	return strings.TrimSpace(line)
}

func (s *Solver) Push() {
	s.tmarks = append(s.tmarks, len(s.transcript))
	s.send("(push 1)")
	s.scopes = append(s.scopes, map[int64]bool{})
	s.vscopes = append(s.vscopes, map[string]bool{})
}

func (s *Solver) Pop() {
	s.send("(pop 1)")
	s.scopes = s.scopes[:len(s.scopes)-1]
	if len(s.scopes) == 1 && s.LogCap > 0 && s.logBytes > s.LogCap {
		s.logStopped = true // the transcript ends at a path boundary: it stays a well-formed script
	}
	s.vscopes = s.vscopes[:len(s.vscopes)-1]
	if n := len(s.tmarks); n > 0 {
		if s.keepTranscript {
			s.transcript = s.transcript[:s.tmarks[n-1]]
		}
		s.tmarks = s.tmarks[:n-1]
	}
}

func (s *Solver) Depth() int { return len(s.scopes) - 1 }

func (s *Solver) isDefined(id int64) bool {
	for i := len(s.scopes) - 1; i >= 0; i-- {
		if s.scopes[i][id] {
			return true
		}
	}
	return false
}

func (s *Solver) isDeclared(n string) bool {
	for i := len(s.vscopes) - 1; i >= 0; i-- {
		if s.vscopes[i][n] {
			return true
		}
	}
	return false
}

func quoteName(n string) string { return "|" + n + "|" }

// ref returns an SMT expression referring to t, emitting definitions as needed.
func (s *Solver) ref(t *Term) string {
	switch t.Op {
	case OpConst:
		return constLit(t)
	case OpVar:
		if !s.isDeclared(t.Name) {
			s.send(fmt.Sprintf("(declare-const %s %s)", quoteName(t.Name), sortName(t.W)))
			s.vscopes[len(s.vscopes)-1][t.Name] = true
		}
		return quoteName(t.Name)
	}
	name := "t" + strconv.FormatInt(t.id, 10)
	if s.isDefined(t.id) {
		return name
	}
	args := make([]string, len(t.Args))
	for i, a := range t.Args {
		args[i] = s.ref(a)
	}
	var head string
	switch t.Op {
	case OpExtract:
		head = fmt.Sprintf("(_ extract %d %d)", t.P1, t.P2)
	case OpZext:
		head = fmt.Sprintf("(_ zero_extend %d)", t.P1)
	case OpSext:
		head = fmt.Sprintf("(_ sign_extend %d)", t.P1)
	default:
		head = opNames[t.Op]
	}
	s.send(fmt.Sprintf("(define-fun %s () %s (%s %s))", name, sortName(t.W), head, strings.Join(args, " ")))
	s.scopes[len(s.scopes)-1][t.id] = true
	return name
}

func (s *Solver) Assert(t *Term) {
	if t.IsTrue() {
		return
	}
	s.send("(assert " + s.ref(t) + ")")
}

func (s *Solver) Check() SatResult {
	start := time.Now()
	// watchdog: z3 does not always honour its own timeout (preprocessing of large bit-vector terms); a query that is
	// still running well past it gets the solver killed, which ends the instance as inconclusive
	wd := time.AfterFunc(time.Duration(s.timeoutMs)*time.Millisecond+45*time.Second, func() {
		if s.cmd != nil && s.cmd.Process != nil {
			s.cmd.Process.Kill()
		}
	})
	defer wd.Stop()
	s.send("(check-sat)")
	if s.log != nil {
		s.log.Flush()
	}
	var res SatResult = Unknown
	for {
		line := s.readLine()
		switch {
		case line == "sat":
			res = Sat
		case line == "unsat":
			res = Unsat
		case line == "unknown" || strings.HasPrefix(line, "timeout"):
			res = Unknown
		case strings.HasPrefix(line, "(error"):
			s.Errors = append(s.Errors, line)
			continue
		case line == "":
			continue
		default:
			s.Errors = append(s.Errors, "unexpected solver output: "+line)
			res = Unknown
		}
		break
	}
	if s.log != nil && !s.logStopped {
		s.log.WriteString("; RESULT " + res.String() + "\n")
	}
	s.Time += time.Since(start)
	if s.ByTag == nil {
		s.ByTag = map[string]int{}
		s.TimeByTag = map[string]time.Duration{}
	}
	s.ByTag[s.Tag]++
	s.TimeByTag[s.Tag] += time.Since(start)
	s.NQueries++
	switch res {
	case Sat:
		s.NSat++
	case Unsat:
		s.NUnsat++
	default:
		s.NUnknown++
	}
	return res
}

// CheckWith checks satisfiability of the current context plus extra, without keeping extra.
func (s *Solver) CheckWith(extra ...*Term) SatResult {
	s.Push()
	for _, e := range extra {
		s.Assert(e)
	}
	r := s.Check()
	s.Pop()
	return r
}

// Values returns model values for the given terms (after a Sat Check in the same scope).
func (s *Solver) Values(ts []*Term) ([]uint64, error) {
	out := make([]uint64, len(ts))
	for i, t := range ts {
		if t.IsConst() {
			out[i] = t.C
			continue
		}
		r := s.ref(t)
		s.send("(get-value (" + r + "))")
		if s.log != nil {
			s.log.Flush()
		}
		line := s.readLine()
		for strings.HasPrefix(line, "(error") {
			s.Errors = append(s.Errors, line)
			return nil, fmt.Errorf("get-value: %s", line)
		}
		// accumulate until parentheses balance
		for strings.Count(line, "(") > strings.Count(line, ")") {
			line += " " + s.readLine()
		}
		v, err := parseValue(line)
		if err != nil {
			return nil, fmt.Errorf("get-value parse %q: %v", line, err)
		}
		out[i] = v
	}
	return out, nil
}

func parseValue(line string) (uint64, error) {
	// forms: ((name #x00ff)) ((name #b0101)) ((name true)) ((name (_ bv5 32)))
	line = strings.TrimSpace(line)
	line = strings.TrimPrefix(line, "((")
	line = strings.TrimSuffix(line, "))")
	// drop the name (may be quoted with | |)
	var rest string
	if strings.HasPrefix(line, "|") {
		j := strings.Index(line[1:], "|")
		rest = strings.TrimSpace(line[j+2:])
	} else {
		j := strings.IndexAny(line, " \t")
		if j < 0 {
			return 0, fmt.Errorf("no value")
		}
		rest = strings.TrimSpace(line[j:])
	}
	switch {
	case rest == "true":
		return 1, nil
	case rest == "false":
		return 0, nil
	case strings.HasPrefix(rest, "#x"):
		return strconv.ParseUint(rest[2:], 16, 64)
	case strings.HasPrefix(rest, "#b"):
		return strconv.ParseUint(rest[2:], 2, 64)
	case strings.HasPrefix(rest, "(_ bv"):
		f := strings.Fields(rest[5:])
		return strconv.ParseUint(f[0], 10, 64)
	}
	return 0, fmt.Errorf("unrecognised value %q", rest)
}

// Script returns the current assertion stack as a standalone SMT-LIB2 script (without check-sat).
func (s *Solver) Script() string {
	return strings.Join(s.transcript, "\n")
}


// ---- cross-solver re-discharge ------------------------------------------------------------------------------

// CrossResult: how another solver answered the check-sat queries of a recorded transcript.
type CrossResult struct {
	Solver                                string
	Queries, Agree, Unknown, Disagree int
	FirstDisagreement                     string
	Err                                   string
	Wall                                  time.Duration
}

// crossCheck replays a transcript written by Solver (with "; RESULT x" after every check-sat) on another solver and
// compares the verdicts query by query.  get-value commands are dropped (models legitimately differ).
func crossCheck(kind, logPath string, perQueryMs int, wallCap time.Duration) CrossResult {
	cr := CrossResult{Solver: kind}
	start := time.Now()
	data, err := os.ReadFile(logPath)
	if err != nil {
		cr.Err = err.Error()
		return cr
	}
	var script strings.Builder
	var want []string
	if kind == "cvc5" {
		script.WriteString("(set-logic ALL)\n")
		fmt.Fprintf(&script, "(set-option :tlimit-per %d)\n", perQueryMs)
	} else {
		fmt.Fprintf(&script, "(set-option :timeout %d)\n", perQueryMs)
	}
	for _, line := range strings.Split(string(data), "\n") {
		switch {
		case strings.HasPrefix(line, "; RESULT "):
			want = append(want, strings.TrimPrefix(line, "; RESULT "))
		case strings.HasPrefix(line, "(get-value"), strings.HasPrefix(line, "(set-option"), strings.HasPrefix(line, "(set-logic"), line == "":
		default:
			script.WriteString(line)
			script.WriteString("\n")
		}
	}
	script.WriteString("(exit)\n")
	argv := solverArgv(kind)
	cmd := exec.Command(argv[0], argv[1:]...)
	cmd.Stdin = strings.NewReader(script.String())
	outp, err := cmd.StdoutPipe()
	if err != nil {
		cr.Err = err.Error()
		return cr
	}
	if err := cmd.Start(); err != nil {
		cr.Err = err.Error()
		return cr
	}
	timer := time.AfterFunc(wallCap, func() { cmd.Process.Kill() })
	defer timer.Stop()
	rd := bufio.NewReader(outp)
	i := 0
	for {
		line, err := rd.ReadString('\n')
		line = strings.TrimSpace(line)
		if line == "sat" || line == "unsat" || line == "unknown" || strings.HasPrefix(line, "timeout") {
			if strings.HasPrefix(line, "timeout") {
				line = "unknown"
			}
			if i < len(want) {
				cr.Queries++
				switch {
				case line == "unknown" || want[i] == "unknown":
					cr.Unknown++
				case line == want[i]:
					cr.Agree++
				default:
					cr.Disagree++
					if cr.FirstDisagreement == "" {
						cr.FirstDisagreement = fmt.Sprintf("query %d of %s: z3 4.8.12 %s, %s %s", i+1, logPath, want[i], kind, line)
					}
				}
			}
			i++
		} else if strings.HasPrefix(line, "(error") && cr.Err == "" {
			cr.Err = line
		}
		if err != nil {
			break
		}
	}
	cmd.Wait()
	cr.Wall = time.Since(start)
	return cr
}
