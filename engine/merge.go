package main

// If-conversion of pure, loop-free regions: `a && b && c`, `if c { x = 1 } else { x = 0 }` and similar
// become ite terms instead of forked paths.  Only instructions that cannot fail and have no side effects
// are evaluated speculatively; anything else falls back to forking.

import (
	"go/token"
	"go/types"

	"golang.org/x/tools/go/ssa"
)

// ipdom computes immediate post-dominators for a function (index by block index; -1 = exit/none).
func computeIPdom(fn *ssa.Function) []int {
	n := len(fn.Blocks)
	// post-dominator sets as bitsets (functions are small); virtual exit = n
	type set []uint64
	words := (n + 1 + 63) / 64
	full := func() set {
		s := make(set, words)
		for i := range s {
			s[i] = ^uint64(0)
		}
		return s
	}
	pd := make([]set, n+1)
	for i := range pd {
		pd[i] = full()
	}
	exit := make(set, words)
	exit[n/64] |= 1 << uint(n%64)
	pd[n] = exit
	succs := func(b *ssa.BasicBlock) []int {
		if len(b.Succs) == 0 {
			return []int{n}
		}
		out := make([]int, len(b.Succs))
		for i, s := range b.Succs {
			out[i] = s.Index
		}
		return out
	}
	changed := true
	for changed {
		changed = false
		for i := n - 1; i >= 0; i-- {
			b := fn.Blocks[i]
			ns := full()
			for _, s := range succs(b) {
				for w := range ns {
					ns[w] &= pd[s][w]
				}
			}
			ns[i/64] |= 1 << uint(i%64)
			for w := range ns {
				if ns[w] != pd[i][w] {
					changed = true
				}
			}
			pd[i] = ns
		}
	}
	count := func(s set) int {
		c := 0
		for _, w := range s {
			for ; w != 0; w &= w - 1 {
				c++
			}
		}
		return c
	}
	res := make([]int, n)
	for i := 0; i < n; i++ {
		res[i] = -1
		// ipdom = the strict post-dominator with the largest pd set size smaller than pd[i]
		best, bestCount := -1, -1
		ci := count(pd[i])
		for j := 0; j <= n; j++ {
			if j == i || pd[i][j/64]&(1<<uint(j%64)) == 0 {
				continue
			}
			cj := count(pd[j])
			if cj == ci-1 {
				best = j
				break
			}
			if cj > bestCount {
				best, bestCount = j, cj
			}
		}
		if best == n {
			best = -1
		}
		res[i] = best
	}
	return res
}

type edgeGuard struct {
	pred  *ssa.BasicBlock
	guard *Term
}

// tryMerge attempts to if-convert the region between blk (ending in If on cond c) and its post-dominator.
// On success phis of the join block are set and the join block is returned.
func (in *Interp) tryMerge(fr *Frame, blk *ssa.BasicBlock, c *Term) *ssa.BasicBlock {
	if in.noMerge {
		return nil
	}
	info := fr.info
	if info.ipdom == nil {
		info.ipdomOnce.Do(func() { info.ipdom = computeIPdom(fr.fn) })
	}
	ji := info.ipdom[blk.Index]
	if ji < 0 {
		return nil
	}
	J := fr.fn.Blocks[ji]
	var edges []edgeGuard
	budget := 24
	onPath := map[int]bool{blk.Index: true}
	var walk func(b *ssa.BasicBlock, pred *ssa.BasicBlock, g *Term) bool
	walk = func(b *ssa.BasicBlock, pred *ssa.BasicBlock, g *Term) bool {
		if b == J {
			edges = append(edges, edgeGuard{pred, g})
			return true
		}
		budget--
		if budget < 0 || onPath[b.Index] {
			return false
		}
		onPath[b.Index] = true
		defer delete(onPath, b.Index)
		for _, ins := range b.Instrs {
			switch x := ins.(type) {
			case *ssa.Phi:
				return false
			case *ssa.Jump:
				return walk(b.Succs[0], b, g)
			case *ssa.If:
				cv, ok := in.get(fr, x.Cond).(*Term)
				if !ok {
					return false
				}
				if cv.IsConst() {
					if cv.C == 1 {
						return walk(b.Succs[0], b, g)
					}
					return walk(b.Succs[1], b, g)
				}
				return walk(b.Succs[0], b, in.tb.And(g, cv)) && walk(b.Succs[1], b, in.tb.And(g, in.tb.Not(cv)))
			case *ssa.DebugRef:
			default:
				if !in.pureExec(fr, ins) {
					return false
				}
			}
		}
		return false
	}
	if !(walk(blk.Succs[0], blk, c) && walk(blk.Succs[1], blk, in.tb.Not(c))) {
		return nil
	}
	// set the phis of J
	var phis []*ssa.Phi
	for _, ins := range J.Instrs {
		if p, ok := ins.(*ssa.Phi); ok {
			phis = append(phis, p)
		} else {
			break
		}
	}
	vals := make([]Value, len(phis))
	for pi, p := range phis {
		var acc Value
		for ei := len(edges) - 1; ei >= 0; ei-- {
			e := edges[ei]
			idx := -1
			for k, pr := range J.Preds {
				if pr == e.pred {
					idx = k
				}
			}
			if idx < 0 {
				return nil
			}
			v := in.get(fr, p.Edges[idx])
			if acc == nil {
				acc = v
				continue
			}
			at, ok1 := acc.(*Term)
			vt, ok2 := v.(*Term)
			if ok1 && ok2 && at.W == vt.W {
				acc = in.tb.Ite(e.guard, vt, at)
				continue
			}
			if !in.sameValue(acc, v) {
				return nil
			}
		}
		vals[pi] = acc
	}
	for pi, p := range phis {
		in.set(fr, p, vals[pi])
	}
	in.sh.stats.add("merged_diamonds", 1)
	return J
}

func (in *Interp) sameValue(a, b Value) bool {
	switch x := a.(type) {
	case PtrV:
		y, ok := b.(PtrV)
		return ok && x.N == y.N && x.Sym == y.Sym && x.VW == y.VW && x.VOff == y.VOff
	case *Term:
		y, ok := b.(*Term)
		return ok && x == y
	case *MapObj:
		y, ok := b.(*MapObj)
		return ok && x == y
	}
	return false
}

// pureExec executes ins if it provably has no side effect and cannot fail; reports whether it did.
func (in *Interp) pureExec(fr *Frame, ins ssa.Instruction) bool {
	switch x := ins.(type) {
	case *ssa.BinOp:
		a, b := in.get(fr, x.X), in.get(fr, x.Y)
		at, ok1 := a.(*Term)
		bt, ok2 := b.(*Term)
		if !ok1 || !ok2 {
			switch x.Op {
			case token.EQL, token.NEQ:
				// comparisons of strings / pointers / interfaces are side-effect free
				switch a.(type) {
				case *StrV, PtrV, IfaceV, *StructV, *ArrayV:
					if _, isP := b.(Poison); isP {
						return false
					}
					in.set(fr, x, in.binop(x.Op, a, b, x.X.Type(), x.Y.Type()))
					return true
				}
			}
			return false
		}
		switch x.Op {
		case token.QUO, token.REM:
			if !bt.IsConst() || bt.C == 0 {
				return false
			}
		case token.SHL, token.SHR:
			if _, signed, _ := intWidth(x.Y.Type()); signed && !bt.IsConst() {
				return false
			}
		}
		in.set(fr, x, in.intBinop(x.Op, at, bt, x.X.Type(), x.Y.Type()))
		return true
	case *ssa.UnOp:
		v := in.get(fr, x.X)
		switch x.Op {
		case token.NOT, token.SUB, token.XOR:
			if _, ok := v.(*Term); !ok {
				return false
			}
			in.set(fr, x, in.unop(x, v))
			return true
		case token.MUL:
			p, ok := v.(PtrV)
			if !ok || p.N == nil || p.Sym != nil || p.VW != 0 {
				return false
			}
			in.set(fr, x, in.loadNode(p.N))
			return true
		}
		return false
	case *ssa.Convert:
		v, ok := in.get(fr, x.X).(*Term)
		if !ok {
			return false
		}
		if w, _, ok := intWidth(x.Type()); !ok || w == 0 {
			return false
		}
		in.set(fr, x, in.convert(v, x.X.Type(), x.Type()))
		return true
	case *ssa.ChangeType:
		in.set(fr, x, in.get(fr, x.X))
		return true
	case *ssa.Extract:
		in.set(fr, x, in.get(fr, x.Tuple).(TupleV)[x.Index])
		return true
	case *ssa.Field:
		sv, ok := in.get(fr, x.X).(*StructV)
		if !ok {
			return false
		}
		in.set(fr, x, sv.F[x.Field])
		return true
	case *ssa.FieldAddr:
		p, ok := in.get(fr, x.X).(PtrV)
		if !ok || p.N == nil || p.Sym != nil || p.VW != 0 {
			return false
		}
		in.set(fr, x, PtrV{N: p.N.Kids[x.Field]})
		return true
	case *ssa.Index:
		idx, ok := in.get(fr, x.Index).(*Term)
		if !ok || !idx.IsConst() {
			return false
		}
		switch b := in.get(fr, x.X).(type) {
		case *ArrayV:
			if int(idx.C) >= len(b.E) {
				return false
			}
			in.set(fr, x, b.E[idx.C])
			return true
		}
		return false
	case *ssa.IndexAddr:
		idx, ok := in.get(fr, x.Index).(*Term)
		if !ok || !idx.IsConst() {
			return false
		}
		switch b := in.get(fr, x.X).(type) {
		case SliceV:
			if b.VW != 0 || int64(idx.C) >= int64(b.Len) || signExt(idx.C, idx.W) < 0 {
				return false
			}
			in.set(fr, x, PtrV{N: b.Arr.Kids[b.Off+int(idx.C)]})
			return true
		case PtrV:
			if b.N == nil || b.Sym != nil || b.VW != 0 || int64(idx.C) >= int64(len(b.N.Kids)) || signExt(idx.C, idx.W) < 0 {
				return false
			}
			in.set(fr, x, PtrV{N: b.N.Kids[idx.C]})
			return true
		}
		return false
	case *ssa.Call:
		// len / cap are pure
		if b, ok := x.Call.Value.(*ssa.Builtin); ok && (b.Name() == "len" || b.Name() == "cap") {
			a := in.get(fr, x.Call.Args[0])
			switch a.(type) {
			case SliceV, *StrV, *ArrayV:
				in.set(fr, x, in.builtin(b, []Value{a}, &x.Call))
				return true
			case *MapObj:
				in.set(fr, x, in.builtin(b, []Value{a}, &x.Call))
				return true
			}
		}
		return false
	}
	_ = types.Typ
	return false
}
