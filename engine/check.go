package main

// `gosym check`: run one property's harness instances, replay counterexamples and path witnesses natively,
// apply the known-findings list, write the evidence file and decide the exit status.

import (
	"bytes"
	"encoding/json"
	"flag"
	"fmt"
	"math/rand"
	"os"
	"os/exec"
	"path/filepath"
	"sort"
	"strconv"
	"strings"
	"sync"
	"time"

	"golang.org/x/tools/go/ssa"
)

type KnownFinding struct {
	Property string `json:"property"`
	Harness  string `json:"harness"` // short function name
	Kind     string `json:"kind"`
	Label    string `json:"label"`
	Status   string `json:"status"` // "known" | "fixed"
	Commit   string `json:"commit,omitempty"`
	What     string `json:"what"`
}

func loadKnown() []KnownFinding {
	data, err := os.ReadFile(filepath.Join(verifDir, "known_findings.json"))
	if err != nil {
		return nil
	}
	var k struct {
		Findings []KnownFinding `json:"findings"`
	}
	if err := json.Unmarshal(data, &k); err != nil {
		fatal("known_findings.json: %v", err)
	}
	return k.Findings
}

func shortName(full string) string {
	if i := strings.LastIndex(full, "."); i >= 0 {
		return full[i+1:]
	}
	return full
}

type job struct {
	spec   *HarnessSpec
	fn     *ssa.Function
	params []int
}

type nativeResult struct {
	status, detail string
	obs            []string
}

func cmdCheck(args []string) {
	fs := flag.NewFlagSet("check", flag.ExitOnError)
	prop := fs.String("prop", "", "property id, e.g. C06")
	tier := fs.String("tier", "", "quick | thorough")
	workers := fs.Int("workers", 14, "parallel engine workers")
	only := fs.String("only", "", "run only harnesses whose name contains this")
	replayPath := fs.String("replay", "", "replay a stored counterexample vector natively instead of checking")
	keep := fs.Bool("keep", false, "keep work directory")
	noNative := fs.Bool("no-native", false, "skip native runs (development only; never for registered checks)")
	noCross := fs.Bool("no-cross", false, "skip the cross-solver re-discharge (development only)")
	fs.Parse(args)
	if *tier == "" {
		*tier = os.Getenv("VERIF_TIER")
	}
	if *tier == "" {
		*tier = "quick"
	}
	seed := int64(0)
	if s := os.Getenv("VERIF_SEED"); s != "" {
		if n, err := strconv.ParseInt(s, 10, 64); err == nil {
			seed = n
		}
	}
	start := time.Now()
	reg := loadRegistry()
	spec, ok := reg[*prop]
	if !ok {
		fatal("property %s not in registry", *prop)
	}
	work := filepath.Join(outDir, ".work", *prop+"-"+*tier)
	os.RemoveAll(work)
	os.MkdirAll(work, 0o755)
	if !*keep {
		defer os.RemoveAll(work)
	}

	// packages needed
	pkgSet := map[string]bool{}
	for _, h := range spec.Harnesses {
		i := strings.LastIndex(h.Func, ".")
		pkgSet[h.Func[:i]] = true
	}
	var pkgs []string
	for p := range pkgSet {
		pkgs = append(pkgs, p)
	}
	sort.Strings(pkgs)

	// overlay: harness files + generated replay tests
	ov, _ := buildOverlay(nil)
	ovFiles := map[string]string{} // virtual -> real path on disk (for go test -overlay)
	filepath.Walk(harnessDir, func(p string, info os.FileInfo, err error) error {
		if err != nil || info.IsDir() || !strings.HasSuffix(p, ".go") {
			return nil
		}
		rel, _ := filepath.Rel(harnessDir, p)
		if strings.HasPrefix(rel, "vh/") {
			ovFiles[filepath.Join(repoDir, "zzverif", rel)] = p
		} else if !strings.HasPrefix(rel, "_") {
			ovFiles[filepath.Join(repoDir, rel)] = p
		}
		return nil
	})

	// Badger model for native replay: write the stub files to the work dir and map them
	if model, err := os.ReadFile(filepath.Join(harnessDir, "_badgermodel", "badger.go")); err == nil {
		stub := filepath.Join(work, "badger_stub.go")
		os.WriteFile(stub, []byte("package badger\n"), 0o644)
		_ = model
		first := true
		files, _ := filepath.Glob(filepath.Join(badgerModDir, "*.go"))
		for _, f := range files {
			if strings.HasSuffix(f, "_test.go") {
				continue
			}
			if first {
				ovFiles[f] = filepath.Join(harnessDir, "_badgermodel", "badger.go")
				first = false
			} else {
				ovFiles[f] = stub
			}
		}
	}
	if *replayPath != "" {
		os.Exit(replayOnly(*prop, *replayPath, ovFiles, work))
	}

	var pats []string
	for _, p := range pkgs {
		pats = append(pats, "./"+p)
	}
	pats = append(pats, "./zzverif/vh")
	t0 := time.Now()
	prog, _ := loadProgram(ov, pats)
	loadTime := time.Since(t0)
	sh := NewShared(prog)

	// jobs
	var jobs []job
	for i := range spec.Harnesses {
		h := &spec.Harnesses[i]
		if *only != "" && !strings.Contains(h.Func, *only) {
			continue
		}
		fn := findFunc(prog, h.Func)
		if fn == nil {
			fatal("harness %s not found (does the harness compile against the current tree?)", h.Func)
		}
		ps := h.Quick
		if *tier == "thorough" && h.Thorough != nil {
			ps = h.Thorough
		}
		if len(ps) == 0 {
			ps = [][]int{nil}
		}
		for _, p := range ps {
			jobs = append(jobs, job{spec: h, fn: fn, params: p})
		}
	}
	rng := rand.New(rand.NewSource(seed))
	rng.Shuffle(len(jobs), func(i, j int) { jobs[i], jobs[j] = jobs[j], jobs[i] })

	results := make([]InstanceResult, len(jobs))
	smtDir := filepath.Join(work, "smt")
	os.MkdirAll(smtDir, 0o755)
	var wg sync.WaitGroup
	ch := make(chan int)
	for w := 0; w < *workers; w++ {
		wg.Add(1)
		go func() {
			defer wg.Done()
			for i := range ch {
				j := jobs[i]
				cfg := runCfg{unwind: 100000, maxSteps: 200_000_000, maxPaths: 2_000_000, timeout: 10 * time.Minute, solver: "z3", solverTimeoutMs: 60000, witnessPerInstance: 1}
				if *tier == "thorough" {
					cfg.timeout = 40 * time.Minute
					cfg.witnessPerInstance = 2
				}
				if j.spec.Unwind > 0 {
					cfg.unwind = j.spec.Unwind
				}
				if j.spec.MaxSteps > 0 {
					cfg.maxSteps = j.spec.MaxSteps
				}
				if j.spec.MaxPaths > 0 {
					cfg.maxPaths = j.spec.MaxPaths
				}
				if j.spec.Timeout > 0 {
					cfg.timeout = time.Duration(j.spec.Timeout) * time.Second
					if *tier != "thorough" && cfg.timeout > 10*time.Minute {
						cfg.timeout = 10 * time.Minute // registry time-outs above the default are meant for the thorough tier
					}
				}
				if !*noCross {
					cfg.logDir = smtDir
					cfg.logCap, cfg.crossWall = 256<<10, 40*time.Second
					if *tier == "thorough" {
						cfg.logCap, cfg.crossWall = 1<<20, 120*time.Second
					}
					cfg.crossSolvers = []string{"z3-new", "cvc5"}
				}
				results[i] = runInstance(sh, j.fn, j.params, cfg)
			}
		}()
	}
	for i := range jobs {
		ch <- i
	}
	close(ch)
	wg.Wait()

	// ---- collect ----
	var inconclusive []string
	totalPaths, completed, queries, nsat, nunsat, nunk := 0, 0, 0, 0, 0, 0
	var solverTime time.Duration
	for _, r := range results {
		totalPaths += r.Paths
		completed += r.Completed
		queries += r.Queries
		nsat += r.Sat
		nunsat += r.Unsat
		nunk += r.Unknown
		solverTime += r.SolverTime
		for _, s := range r.Inconclusive {
			inconclusive = append(inconclusive, fmt.Sprintf("%s%v: %s", shortName(r.Func), r.Params, s))
		}
	}
	// cross-solver re-discharge: the first queries of every instance (a transcript prefix) decided again by z3 5.x and cvc5
	cross := map[string]map[string]interface{}{}
	for _, r := range results {
		for _, c := range r.Cross {
			m := cross[c.Solver]
			if m == nil {
				m = map[string]interface{}{"queries": 0, "agree": 0, "unknown_or_timeout": 0, "disagree": 0, "wall_s": 0.0, "instances": 0}
				cross[c.Solver] = m
			}
			m["queries"] = m["queries"].(int) + c.Queries
			m["agree"] = m["agree"].(int) + c.Agree
			m["unknown_or_timeout"] = m["unknown_or_timeout"].(int) + c.Unknown
			m["disagree"] = m["disagree"].(int) + c.Disagree
			m["wall_s"] = m["wall_s"].(float64) + c.Wall.Seconds()
			m["instances"] = m["instances"].(int) + 1
			if c.Disagree > 0 {
				inconclusive = append(inconclusive, "SOLVER-DISAGREEMENT: "+c.FirstDisagreement)
			}
			if c.Err != "" && c.Queries == 0 {
				m["error"] = c.Err
			}
		}
	}
	// reach witnesses
	for _, j := range jobs {
		tags := j.spec.Reach
		if tags == nil {
			tags = []string{"end"}
		}
		hasVio := false
		for _, v := range sh.violations {
			if v.Harness == j.fn.String() {
				hasVio = true
			}
		}
		for _, tg := range tags {
			if !sh.reach[j.fn.String()+"|"+tg] && !hasVio {
				inconclusive = append(inconclusive, fmt.Sprintf("%s: reachability witness %q not reached (vacuous harness?)", shortName(j.fn.String()), tg))
			}
		}
	}

	// ---- native replay of candidates and witnesses ----
	type vecRef struct {
		path    string
		vio     *Violation
		wit     *Witness
		harness string
	}
	var vecs []vecRef
	evReplayDir := filepath.Join(outDir, "evidence", "replay")
	os.MkdirAll(evReplayDir, 0o755)
	// remove stale replay vectors of this property
	if old, _ := filepath.Glob(filepath.Join(evReplayDir, *prop+"-*.json")); old != nil {
		for _, f := range old {
			os.Remove(f)
		}
	}
	sort.Slice(sh.violations, func(i, j int) bool {
		a, b := sh.violations[i], sh.violations[j]
		return a.Harness+a.Label < b.Harness+b.Label
	})
	for i := range sh.violations {
		v := &sh.violations[i]
		p := filepath.Join(evReplayDir, fmt.Sprintf("%s-%d.json", *prop, i+1))
		writeJSON(p, map[string]interface{}{"harness": v.Harness, "params": v.Params, "inputs": v.Inputs, "kind": v.Kind, "label": v.Label, "site": v.Site, "trace": v.Trace, "property": *prop})
		vecs = append(vecs, vecRef{path: p, vio: v, harness: v.Harness})
	}
	for i := range sh.witnesses {
		w := &sh.witnesses[i]
		p := filepath.Join(work, fmt.Sprintf("wit-%d.json", i))
		writeJSON(p, map[string]interface{}{"harness": w.Harness, "params": w.Params, "inputs": w.Inputs})
		vecs = append(vecs, vecRef{path: p, wit: w, harness: w.Harness})
	}
	native := map[string]nativeResult{}
	nativeErr := ""
	if len(vecs) > 0 && !*noNative {
		byPkg := map[string][]string{}
		for _, v := range vecs {
			full := v.harness
			i := strings.LastIndex(full, ".")
			rel := strings.TrimPrefix(full[:i], modPath+"/")
			byPkg[rel] = append(byPkg[rel], v.path)
		}
		repeat := 1
		for _, h := range spec.Harnesses {
			if h.Repeat > repeat {
				repeat = h.Repeat
			}
		}
		var mu sync.Mutex
		var nwg sync.WaitGroup
		for rel, paths := range byPkg {
			nwg.Add(1)
			go func(rel string, paths []string) {
				defer nwg.Done()
				res, err := runNative(prog, rel, paths, ovFiles, work, repeat)
				mu.Lock()
				for k, v := range res {
					native[k] = v
				}
				if err != nil && nativeErr == "" {
					nativeErr = err.Error()
				}
				mu.Unlock()
			}(rel, paths)
		}
		nwg.Wait()
	}
	if nativeErr != "" {
		inconclusive = append(inconclusive, "native replay failed: "+nativeErr)
	}

	known := loadKnown()
	var confirmed, knownHits, mismatches []string
	nViol := 0
	witnessOK := 0
	for _, v := range vecs {
		nr, have := native[v.path]
		if *noNative {
			if v.vio != nil {
				confirmed = append(confirmed, fmt.Sprintf("VIOLATION property=%s replay=%s", *prop, v.path))
				fmt.Printf("CANDIDATE (not replayed) %s %s: %s\n", shortName(v.vio.Harness), v.vio.Kind, v.vio.Label)
				nViol++
			}
			continue
		}
		if !have {
			mismatches = append(mismatches, fmt.Sprintf("no native result for %s", v.path))
			continue
		}
		if v.wit != nil {
			if nr.status != "ok" {
				mismatches = append(mismatches, fmt.Sprintf("path witness of %s%v fails natively (%s: %s) although the engine completed the path", shortName(v.wit.Harness), v.wit.Params, nr.status, nr.detail))
				continue
			}
			if strings.Join(nr.obs, ";") != strings.Join(v.wit.Expected, ";") {
				mismatches = append(mismatches, fmt.Sprintf("observations differ for %s%v: engine %v native %v", shortName(v.wit.Harness), v.wit.Params, v.wit.Expected, nr.obs))
				continue
			}
			witnessOK++
			continue
		}
		vio := v.vio
		reproduced := false
		switch vio.Kind {
		case "assert":
			reproduced = nr.status == "assert" && nr.detail == vio.Label
		case "panic":
			reproduced = nr.status == "panic"
		}
		if !reproduced {
			for _, h := range spec.Harnesses {
				if h.Schedule && strings.HasSuffix(vio.Harness, h.Func) {
					// an interleaving cannot be forced natively: the counterexample is the recorded schedule,
					// re-executed deterministically by the engine (stated in DESIGN.md §2.10)
					reproduced = true
					fmt.Printf("schedule counterexample (engine-replayed, choices %s)\n", vio.Inputs["__choices"])
				}
			}
		}
		if !reproduced {
			mismatches = append(mismatches, fmt.Sprintf("solver model for %s [%s: %s] does not reproduce natively (native: %s %s)", shortName(vio.Harness), vio.Kind, vio.Label, nr.status, nr.detail))
			continue
		}
		isKnown := false
		for _, k := range known {
			if k.Status == "known" && k.Property == *prop && k.Harness == shortName(vio.Harness) && k.Kind == vio.Kind && k.Label == vio.Label {
				isKnown = true
				knownHits = append(knownHits, fmt.Sprintf("KNOWN-FINDING: property=%s %s [%s %s: %s]", *prop, k.What, k.Harness, k.Kind, k.Label))
			}
		}
		if !isKnown {
			nViol++
			confirmed = append(confirmed, fmt.Sprintf("VIOLATION property=%s replay=%s", *prop, v.path))
			fmt.Printf("violated: %s%v %s: %s  at %s\n  native: %s %s\n", shortName(vio.Harness), vio.Params, vio.Kind, vio.Label, vio.Site, nr.status, nr.detail)
		}
	}

	// ---- evidence ----
	nontrivial := 0
	for _, sym := range sh.asserts {
		if sym {
			nontrivial++
		}
	}
	var samples []interface{}
	for _, s := range sh.samples {
		samples = append(samples, s)
	}
	for i, v := range sh.violations {
		if i < 3 {
			samples = append(samples, map[string]interface{}{"counterexample": v})
		}
	}
	if len(samples) == 0 {
		samples = append(samples, "no symbolic obligation sampled")
	}
	var instSumm []string
	for _, r := range results {
		instSumm = append(instSumm, fmt.Sprintf("%s%v paths=%d queries=%d solver=%.2fs wall=%.2fs", shortName(r.Func), r.Params, r.Paths, r.Queries, r.SolverTime.Seconds(), r.Wall.Seconds()))
	}
	sort.Strings(instSumm)
	repoFuncs, otherFuncs := []string{}, 0
	for _, f := range sh.funcList() {
		if strings.Contains(f, modPath) && !strings.Contains(f, "Verif") && !strings.Contains(f, "zzverif") && !strings.Contains(f, ".v") {
			repoFuncs = append(repoFuncs, strings.ReplaceAll(f, modPath+"/", ""))
		} else {
			otherFuncs++
		}
	}
	ev := map[string]interface{}{
		"property_id": *prop,
		"tier":        *tier,
		"seed":        seed,
		"level":       "other",
		"coverage": map[string]interface{}{
			"explanation":            spec.Explanation,
			"technique":              "bounded symbolic execution of the real Go code (go/ssa -> SMT-LIB2 bit-vectors), verdicts by z3; SSA and encoding rebuilt from /repo on this run",
			"evaluations":            totalPaths,
			"distinct_nontrivial":    nontrivial,
			"rule":                   "evaluations = symbolic paths explored (each covers all input values satisfying its path condition); distinct_nontrivial = distinct (harness, assertion) pairs whose condition was symbolic and had to be decided by the solver",
			"samples":                samples,
			"obligations":            sh.stats.get("obligations"),
			"discharged":             sh.stats.get("discharged"),
			"paths_completed":        completed,
			"instances":              len(jobs),
			"instance_summaries":     instSumm,
			"functions_encoded":      repoFuncs,
			"other_functions_executed": otherFuncs,
			"bounds":                 spec.Bounds,
			"queries":                map[string]int{"total": queries, "sat": nsat, "unsat": nunsat, "unknown": nunk},
			"solver":                 "z3 4.8.12 (z3 -in, incremental push/pop)",
			"cross_solver_recheck":   cross,
			"solver_time_s":          solverTime.Seconds(),
			"load_ssa_time_s":        loadTime.Seconds(),
			"reach_witnesses":        sortedKeys(sh.reach),
			"path_witnesses_replayed_natively": witnessOK,
			"counterexamples_replayed_natively": len(sh.violations),
			"paths_cut_outside_claim": sh.cuts,
			"alloc_amplification_sites": sh.allocs,
			"inconclusive":           inconclusive,
			"encoder_mismatches":     mismatches,
			"known_findings_hit":     knownHits,
			"exhaustive":             false,
		},
		"assumptions": spec.Assumptions,
		"wall_s":      time.Since(start).Seconds(),
		"violations":  nViol,
	}
	writeJSON(filepath.Join(outDir, "evidence", *prop+".json"), ev)

	// ---- verdict ----
	fmt.Printf("property %s tier %s: %d instances, %d paths, %d obligations (%d discharged), %d queries, solver %.1fs, wall %.1fs\n",
		*prop, *tier, len(jobs), totalPaths, sh.stats.get("obligations"), sh.stats.get("discharged"), queries, solverTime.Seconds(), time.Since(start).Seconds())
	for _, k := range knownHits {
		fmt.Println(k)
	}
	for _, m := range mismatches {
		fmt.Println("ENCODER-MISMATCH: " + m)
	}
	for _, s := range inconclusive {
		fmt.Println("INCONCLUSIVE: " + s)
	}
	for _, c := range confirmed {
		fmt.Println(c)
	}
	switch {
	case nViol > 0:
		os.Exit(1)
	case len(mismatches) > 0 || len(inconclusive) > 0:
		os.Exit(2)
	}
	fmt.Printf("HOLDS(within bounds) property=%s\n", *prop)
}

func writeJSON(path string, v interface{}) {
	data, err := json.MarshalIndent(v, "", " ")
	if err != nil {
		fatal("json: %v", err)
	}
	if err := os.WriteFile(path, append(data, '\n'), 0o644); err != nil {
		fatal("write %s: %v", path, err)
	}
}

// runNative executes the listed vectors against the real build of package rel (relative to the module root).
func runNative(prog *ssa.Program, rel string, paths []string, ovFiles map[string]string, work string, repeat int) (map[string]nativeResult, error) {
	pkgPath := modPath + "/" + rel
	var sp *ssa.Package
	for _, q := range prog.AllPackages() {
		if q.Pkg.Path() == pkgPath {
			sp = q
		}
	}
	if sp == nil {
		return nil, fmt.Errorf("package %s not loaded", pkgPath)
	}
	// harness functions of this package: Verif* with no parameters
	var names []string
	for name, m := range sp.Members {
		if f, ok := m.(*ssa.Function); ok && strings.HasPrefix(name, "Verif") && f.Signature.Params().Len() == 0 && f.Signature.Results().Len() == 0 {
			names = append(names, name)
		}
	}
	sort.Strings(names)
	return runNativeNames(sp.Pkg.Name(), rel, names, paths, ovFiles, work, repeat)
}

func runNativeNames(pkgName, rel string, names []string, paths []string, ovFiles map[string]string, work string, repeat int) (map[string]nativeResult, error) {
	var src bytes.Buffer
	fmt.Fprintf(&src, "//go:build verif\n\npackage %s\n\nimport (\n\t\"testing\"\n\n\t\"%s/zzverif/vh\"\n)\n\nfunc TestVerifReplay(t *testing.T) {\n\tvh.RunReplay(map[string]func(){\n", pkgName, modPath)
	for _, n := range names {
		fmt.Fprintf(&src, "\t\t%q: %s,\n", n, n)
	}
	fmt.Fprintf(&src, "\t})\n}\n")
	tag := strings.ReplaceAll(rel, "/", "_")
	testFile := filepath.Join(work, "replay_"+tag+"_test.go")
	os.WriteFile(testFile, src.Bytes(), 0o644)
	ov := map[string]string{}
	for k, v := range ovFiles {
		ov[k] = v
	}
	ov[filepath.Join(repoDir, rel, "zz_verif_replay_test.go")] = testFile
	ovPath := filepath.Join(work, "overlay_"+tag+".json")
	writeJSON(ovPath, map[string]interface{}{"Replace": ov})
	listPath := filepath.Join(work, "list_"+tag+".txt")
	os.WriteFile(listPath, []byte(strings.Join(paths, "\n")+"\n"), 0o644)
	cmd := exec.Command("go", "test", "-tags", buildTags, "-overlay", ovPath, "-run", "^TestVerifReplay$", "-count=1", "-v", "-vet=off", "-timeout", "6m", "./"+rel+"/")
	cmd.Dir = repoDir
	cmd.Env = append(os.Environ(), "GOFLAGS=-mod=mod", "GOPROXY=off", "GOTOOLCHAIN=local", "VERIF_REPLAY_LIST="+listPath, "VERIF_REPEAT="+strconv.Itoa(repeat))
	out, err := cmd.CombinedOutput()
	res := map[string]nativeResult{}
	for _, line := range strings.Split(string(out), "\n") {
		if strings.HasPrefix(line, "VERIF-RESULT ") {
			f := strings.SplitN(line, " ", 4)
			nr := res[f[1]]
			nr.status = f[2]
			if len(f) > 3 {
				nr.detail = strings.TrimSpace(f[3])
			}
			res[f[1]] = nr
		} else if strings.HasPrefix(line, "VERIF-OBS ") {
			f := strings.SplitN(line, " ", 3)
			nr := res[f[1]]
			if len(f) > 2 && strings.TrimSpace(f[2]) != "" {
				nr.obs = strings.Split(strings.TrimSpace(f[2]), ";")
			}
			res[f[1]] = nr
		}
	}
	if len(res) < len(paths) && len(paths) > 1 && (strings.Contains(string(out), "\npanic: ") || strings.Contains(string(out), "fatal error: ")) {
		// a panic outside the replaying goroutine (a background goroutine of the code under test) kills the whole test
		// process, and with it the vectors that had not run yet: run the missing ones one process each
		for _, p := range paths {
			if _, ok := res[p]; ok {
				continue
			}
			one, _ := runNativeNames(pkgName, rel, names, []string{p}, ovFiles, work, repeat)
			for k, v := range one {
				res[k] = v
			}
		}
	}
	if len(res) < len(paths) && len(paths) == 1 {
		if i := strings.Index(string(out), "\npanic: "); i >= 0 {
			line := string(out)[i+1:]
			if j := strings.Index(line, "\n"); j >= 0 {
				line = line[:j]
			}
			// the native process died of an unrecovered panic in a goroutine the harness did not start itself
			res[paths[0]] = nativeResult{status: "panic", detail: "process crashed: " + line}
		} else if i := strings.Index(string(out), "fatal error: "); i >= 0 {
			line := string(out)[i:]
			if j := strings.Index(line, "\n"); j >= 0 {
				line = line[:j]
			}
			res[paths[0]] = nativeResult{status: "panic", detail: "process crashed: " + line}
		}
	}
	if len(res) < len(paths) {
		tail := string(out)
		if len(tail) > 3000 {
			tail = tail[len(tail)-3000:]
		}
		return res, fmt.Errorf("go test ./%s produced %d of %d results (err=%v): %s", rel, len(res), len(paths), err, tail)
	}
	return res, nil
}

// replayOnly re-runs a stored counterexample vector natively.
func replayOnly(prop, path string, ovFiles map[string]string, work string) int {
	data, err := os.ReadFile(path)
	if err != nil {
		fatal("replay: %v", err)
	}
	var v struct {
		Harness string `json:"harness"`
		Kind    string `json:"kind"`
		Label   string `json:"label"`
	}
	json.Unmarshal(data, &v)
	i := strings.LastIndex(v.Harness, ".")
	rel := strings.TrimPrefix(v.Harness[:i], modPath+"/")
	name := v.Harness[i+1:]
	// package name from the harness file
	pkgName := filepath.Base(rel)
	if fs, _ := filepath.Glob(filepath.Join(harnessDir, rel, "*.go")); len(fs) > 0 {
		src, _ := os.ReadFile(fs[0])
		for _, line := range strings.Split(string(src), "\n") {
			if strings.HasPrefix(line, "package ") {
				pkgName = strings.TrimSpace(strings.TrimPrefix(line, "package "))
				break
			}
		}
	}
	res, err := runNativeNames(pkgName, rel, []string{name}, []string{path}, ovFiles, work, 50)
	if err != nil {
		fmt.Println("replay failed:", err)
		return 2
	}
	nr := res[path]
	fmt.Printf("native replay of %s: %s %s\n", path, nr.status, nr.detail)
	if nr.status == "ok" {
		fmt.Println("NOT REPRODUCED")
		return 0
	}
	fmt.Printf("REPRODUCED property=%s %s: %s\n", prop, v.Kind, v.Label)
	return 1
}
