package main

func cmdCheck(args []string) { fatal("check: not yet implemented") }
