package main

// Depth-first exploration by re-execution with a recorded decision prefix.

type dKind uint8

const (
	dBranch dKind = iota
	dChoose
	dConcretize
)

type decision struct {
	val      uint64
	more     bool
	kind     dKind
	n        int
	excluded []uint64
	fresh    bool // concretize decision that must pick a new value on replay
}

type Explorer struct {
	prefix []decision
	pos    int
}

func (e *Explorer) replaying() bool { return e.pos < len(e.prefix) }

func (e *Explorer) next() (decision, bool) {
	if e.pos < len(e.prefix) {
		d := e.prefix[e.pos]
		e.pos++
		return d, true
	}
	return decision{}, false
}

func (e *Explorer) unnext() { e.pos-- }

func (e *Explorer) pop() decision {
	d := e.prefix[len(e.prefix)-1]
	e.prefix = e.prefix[:len(e.prefix)-1]
	return d
}

func (e *Explorer) push(d decision) {
	e.prefix = append(e.prefix, d)
	e.pos = len(e.prefix)
}

// advance moves to the next unexplored path; false when exploration is complete.
func (e *Explorer) advance() bool {
	// a path may have ended before consuming the whole prefix only if it aborted early; trim.
	if e.pos < len(e.prefix) {
		e.prefix = e.prefix[:e.pos]
	}
	for len(e.prefix) > 0 {
		last := &e.prefix[len(e.prefix)-1]
		if !last.more {
			e.prefix = e.prefix[:len(e.prefix)-1]
			continue
		}
		switch last.kind {
		case dBranch:
			last.val = 0
			last.more = false
		case dChoose:
			last.val++
			last.more = int(last.val) < last.n-1
		case dConcretize:
			last.excluded = append(last.excluded, last.val)
			last.fresh = true
			last.more = false // recomputed when the fresh value is chosen
		}
		e.pos = 0
		return true
	}
	return false
}
