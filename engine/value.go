package main

// Values and memory model.

import (
	"fmt"
	"go/types"

	"golang.org/x/tools/go/ssa"
)

// Value is one of:
//   *Term (bool / integer), FloatV, *StrV, *StructV, *ArrayV, PtrV, SliceV, *MapObj (map value; nil *MapObj = nil map),
//   IfaceV, *FuncV, TupleV, *ChanObj, *RangeIter, Poison
type Value interface{}

type FloatV struct {
	F float64
}

// StrV is a string: a vector of byte terms with concrete length.
type StrV struct {
	B []*Term
}

type StructV struct {
	F []Value
}

type ArrayV struct {
	E []Value
}

type TupleV []Value

// Node is a memory cell tree.  Leaf: V holds a scalar Value.  Aggregate: Kids non-nil.
type Node struct {
	V    Value
	Kids []*Node
	T    types.Type // type of the value stored in this node
	id   int
}

// PtrV points to a node.  If Sym != nil, N is an array node and the pointer designates
// element [Sym] with Lo <= Sym < Hi (already established by a bounds obligation).
type PtrV struct {
	N      *Node
	Sym    *Term
	Lo, Hi int
	// View: pointer into a byte array reinterpreted as little-endian words of VW bytes (unsafe aliasing).
	VW   int
	VOff int // byte offset of element when VW != 0 (N is the byte array node)
	Fn   *FuncV // pointer-to-function values are not supported; placeholder
}

func (p PtrV) IsNil() bool { return p.N == nil }

// SliceV: Arr is an array node (Kids are the cells). nil slice: Arr == nil.
// If VW != 0 the slice is a typed view over a byte array: element i occupies bytes [Off+i*VW, Off+(i+1)*VW).
type SliceV struct {
	Arr           *Node
	Off, Len, Cap int
	VW            int
}

type MapEntry struct {
	K       Value
	V       Value
	Deleted bool
}

type MapObj struct {
	Entries []*MapEntry
	KT, VT  types.Type
	id      int
}

func (m *MapObj) Len() int {
	n := 0
	for _, e := range m.Entries {
		if !e.Deleted {
			n++
		}
	}
	return n
}

type IfaceV struct {
	T types.Type // dynamic type; nil => nil interface
	V Value
}

type FuncV struct {
	Fn       *ssa.Function
	Bindings []Value
	Builtin  *ssa.Builtin
	// bound method on interface value etc. are lowered by go/ssa into closures ($bound), so nothing else needed.
}

type ChanObj struct {
	Q      []Value
	Closed bool
	Cap    int
	ET     types.Type
	id     int
}

type RangeIter struct {
	M    *MapObj
	Ents []*MapEntry
	I    int
	S    *StrV
}

type Poison struct {
	Why string
}

// ---- type helpers -------------------------------------------------------

func intWidth(t types.Type) (w int, signed bool, ok bool) {
	b, isb := t.Underlying().(*types.Basic)
	if !isb {
		return 0, false, false
	}
	switch b.Kind() {
	case types.Bool, types.UntypedBool:
		return 0, false, true
	case types.Int8:
		return 8, true, true
	case types.Int16:
		return 16, true, true
	case types.Int32, types.UntypedRune:
		return 32, true, true
	case types.Int64, types.Int, types.UntypedInt:
		return 64, true, true
	case types.Uint8:
		return 8, false, true
	case types.Uint16:
		return 16, false, true
	case types.Uint32:
		return 32, false, true
	case types.Uint64, types.Uint, types.Uintptr:
		return 64, false, true
	}
	return 0, false, false
}

func isFloat(t types.Type) bool {
	b, ok := t.Underlying().(*types.Basic)
	return ok && b.Info()&types.IsFloat != 0
}

func isString(t types.Type) bool {
	b, ok := t.Underlying().(*types.Basic)
	return ok && b.Info()&types.IsString != 0
}

func (in *Interp) strConst(s string) *StrV {
	b := make([]*Term, len(s))
	for i := 0; i < len(s); i++ {
		b[i] = in.tb.Const(8, uint64(s[i]))
	}
	return &StrV{B: b}
}

func (s *StrV) Concrete() (string, bool) {
	out := make([]byte, len(s.B))
	for i, t := range s.B {
		if !t.IsConst() {
			return "", false
		}
		out[i] = byte(t.C)
	}
	return string(out), true
}

// zero returns the zero Value of type t (register form).
func (in *Interp) zero(t types.Type) Value {
	switch u := t.Underlying().(type) {
	case *types.Basic:
		if w, _, ok := intWidth(t); ok {
			return in.tb.Const(w, 0)
		}
		if isFloat(t) {
			return FloatV{0}
		}
		if isString(t) {
			return &StrV{}
		}
		if u.Kind() == types.UnsafePointer {
			return PtrV{}
		}
		if u.Kind() == types.UntypedNil {
			return PtrV{}
		}
		if u.Info()&types.IsComplex != 0 {
			return Poison{"complex"}
		}
	case *types.Struct:
		f := make([]Value, u.NumFields())
		for i := range f {
			f[i] = in.zero(u.Field(i).Type())
		}
		return &StructV{F: f}
	case *types.Array:
		n := int(u.Len())
		e := make([]Value, n)
		if n > 0 {
			z := in.zero(u.Elem())
			_, scalar := z.(*Term)
			for i := range e {
				if scalar {
					e[i] = z
				} else {
					e[i] = in.zero(u.Elem())
				}
			}
		}
		return &ArrayV{E: e}
	case *types.Pointer:
		return PtrV{}
	case *types.Slice:
		return SliceV{}
	case *types.Map:
		return (*MapObj)(nil)
	case *types.Interface:
		return IfaceV{}
	case *types.Signature:
		return (*FuncV)(nil)
	case *types.Chan:
		return (*ChanObj)(nil)
	case *types.Tuple:
		tv := make(TupleV, u.Len())
		for i := range tv {
			tv[i] = in.zero(u.At(i).Type())
		}
		return tv
	case *types.TypeParam:
		return Poison{"typeparam"}
	}
	panic(fmt.Sprintf("zero: unsupported type %v", t))
}

// newNode allocates a memory tree for a value of type t initialised to v (or zero if v == nil).
func (in *Interp) newNode(t types.Type, v Value) *Node {
	in.nodeSeq++
	n := &Node{T: t, id: in.nodeSeq}
	switch u := t.Underlying().(type) {
	case *types.Struct:
		n.Kids = make([]*Node, u.NumFields())
		var sv *StructV
		if v != nil {
			sv = v.(*StructV)
		}
		for i := range n.Kids {
			var fv Value
			if sv != nil {
				fv = sv.F[i]
			}
			n.Kids[i] = in.newNode(u.Field(i).Type(), fv)
		}
	case *types.Array:
		ln := int(u.Len())
		n.Kids = make([]*Node, ln)
		var av *ArrayV
		if v != nil {
			av = v.(*ArrayV)
		}
		var z Value
		for i := range n.Kids {
			var ev Value
			if av != nil {
				ev = av.E[i]
			} else if z != nil {
				ev = z
			}
			n.Kids[i] = in.newNode(u.Elem(), ev)
			if av == nil && z == nil {
				if tz, ok := n.Kids[i].V.(*Term); ok && n.Kids[i].Kids == nil {
					z = tz
				}
			}
		}
	default:
		if v == nil {
			v = in.zero(t)
		}
		n.V = v
	}
	return n
}

// newArrayNode allocates an array node with n elements of type et, zeroed.
func (in *Interp) newArrayNode(et types.Type, n int) *Node {
	return in.newNode(types.NewArray(et, int64(n)), nil)
}

// load converts a memory tree into a register value (deep copy for aggregates).
func (in *Interp) loadNode(n *Node) Value {
	if n.Kids == nil {
		if _, isArr := n.T.Underlying().(*types.Array); isArr {
			return &ArrayV{}
		}
		if st, isSt := n.T.Underlying().(*types.Struct); isSt && st.NumFields() == 0 {
			return &StructV{}
		}
		return n.V
	}
	if _, ok := n.T.Underlying().(*types.Struct); ok {
		f := make([]Value, len(n.Kids))
		for i, k := range n.Kids {
			f[i] = in.loadNode(k)
		}
		return &StructV{F: f}
	}
	e := make([]Value, len(n.Kids))
	for i, k := range n.Kids {
		e[i] = in.loadNode(k)
	}
	return &ArrayV{E: e}
}

// storeNode writes register value v into the memory tree n.
func (in *Interp) storeNode(n *Node, v Value) {
	if n.Kids == nil {
		switch v.(type) {
		case *StructV, *ArrayV:
			// empty aggregate
			return
		}
		n.V = v
		return
	}
	switch x := v.(type) {
	case *StructV:
		for i, k := range n.Kids {
			in.storeNode(k, x.F[i])
		}
	case *ArrayV:
		for i, k := range n.Kids {
			in.storeNode(k, x.E[i])
		}
	default:
		panic(fmt.Sprintf("storeNode: aggregate node but value %T", v))
	}
}
