package main

// Standard-library and third-party intrinsics with documented contracts (DESIGN.md §2.7).

import (
	"fmt"
	"hash/crc32"
	"go/types"
	"strings"

	"golang.org/x/tools/go/ssa"
)

type cutPath struct{ why string } // path leaves the modelled world (outside the claim); counted, not a failure

func (in *Interp) callMethod(recv IfaceV, name string, args ...Value) Value {
	if recv.T == nil {
		in.obligation(in.tb.Bool(false), "nil pointer dereference (method call on nil interface)")
		panic(abortPath{"nil iface"})
	}
	var m *ssa.Function
	ms := in.prog.MethodSets.MethodSet(recv.T)
	for i := 0; i < ms.Len(); i++ {
		if ms.At(i).Obj().Name() == name {
			m = in.prog.MethodValue(ms.At(i))
			break
		}
	}
	if m == nil {
		in.unsupportedf("method %s not found on %v", name, recv.T)
	}
	return in.callFunction(m, append([]Value{recv.V}, args...), nil)
}

func (in *Interp) lookupMethodByName(t types.Type, name string) *ssa.Function {
	ms := in.prog.MethodSets.MethodSet(t)
	for i := 0; i < ms.Len(); i++ {
		if ms.At(i).Obj().Name() == name {
			return in.prog.MethodValue(ms.At(i))
		}
	}
	return nil
}

func (in *Interp) stdFunc(pkg, name string) *ssa.Function {
	p := in.prog.ImportedPackage(pkg)
	if p == nil {
		in.unsupportedf("package %s not loaded", pkg)
	}
	f := p.Func(name)
	if f == nil {
		in.unsupportedf("function %s.%s not found", pkg, name)
	}
	return f
}

func isBigEndian(order Value) bool {
	iv := order.(IfaceV)
	return strings.Contains(iv.T.String(), "bigEndian")
}

// fixedSize returns element width (bytes), element count, and accessors for binary.Read/Write data.
type binTarget struct {
	width  int
	n      int
	get    func(i int) *Term
	set    func(i int, t *Term)
	isBool bool
}

func (in *Interp) binTargetOf(data IfaceV, forWrite bool) (binTarget, bool) {
	t := data.T
	switch u := t.Underlying().(type) {
	case *types.Pointer:
		p := data.V.(PtrV)
		el := u.Elem()
		if w, _, ok := intWidth(el); ok {
			bw := w / 8
			if w == 0 {
				bw = 1
			}
			return binTarget{width: bw, n: 1, isBool: w == 0,
				get: func(i int) *Term { return in.load(p).(*Term) },
				set: func(i int, v *Term) { in.store(p, v) }}, true
		}
		if sl, ok := el.Underlying().(*types.Slice); ok {
			s := in.load(p).(SliceV)
			return in.binTargetSlice(s, sl.Elem())
		}
		if at, ok := el.Underlying().(*types.Array); ok {
			if w, _, ok := intWidth(at.Elem()); ok && w > 0 {
				pp := in.derefable(p)
				return binTarget{width: w / 8, n: len(pp.N.Kids),
					get: func(i int) *Term { return pp.N.Kids[i].V.(*Term) },
					set: func(i int, v *Term) { pp.N.Kids[i].V = v }}, true
			}
		}
	case *types.Slice:
		return in.binTargetSlice(data.V.(SliceV), u.Elem())
	case *types.Basic:
		if w, _, ok := intWidth(t); ok {
			bw := w / 8
			if w == 0 {
				bw = 1
			}
			v := data.V.(*Term)
			return binTarget{width: bw, n: 1, isBool: w == 0, get: func(i int) *Term { return v }}, true
		}
	case *types.Array:
		if w, _, ok := intWidth(u.Elem()); ok && w > 0 {
			av := data.V.(*ArrayV)
			return binTarget{width: w / 8, n: len(av.E), get: func(i int) *Term { return av.E[i].(*Term) }}, true
		}
	}
	return binTarget{}, false
}

func (in *Interp) binTargetSlice(s SliceV, et types.Type) (binTarget, bool) {
	w, _, ok := intWidth(et)
	if !ok || w == 0 {
		return binTarget{}, false
	}
	return binTarget{width: w / 8, n: s.Len,
		get: func(i int) *Term { return in.sliceGet(s, i).(*Term) },
		set: func(i int, v *Term) { in.sliceSet(s, i, v) }}, true
}

func (in *Interp) byteSliceOf(ts []*Term) SliceV {
	arr := in.newArrayNode(types.Typ[types.Uint8], len(ts))
	for i, t := range ts {
		arr.Kids[i].V = t
	}
	return SliceV{Arr: arr, Len: len(ts), Cap: len(ts)}
}

func registerStdlib(m map[string]intrinsicFn) {
	m["encoding/binary.Read"] = func(in *Interp, fn *ssa.Function, args []Value) Value {
		data := args[2].(IfaceV)
		tg, ok := in.binTargetOf(data, false)
		if !ok || tg.set == nil {
			in.unsupportedf("binary.Read into %v", data.T)
		}
		total := tg.width * tg.n
		buf := in.byteSliceOf(make([]*Term, total))
		for i := range buf.Arr.Kids {
			buf.Arr.Kids[i].V = in.tb.Const(8, 0)
		}
		r := in.callFunction(in.stdFunc("io", "ReadFull"), []Value{args[0], buf}, nil).(TupleV)
		if err := r[1].(IfaceV); err.T != nil {
			return err
		}
		big := isBigEndian(args[1])
		for i := 0; i < tg.n; i++ {
			var v *Term
			for k := 0; k < tg.width; k++ {
				var b *Term
				if big {
					b = buf.Arr.Kids[i*tg.width+k].V.(*Term) // most significant first
					if v == nil {
						v = b
					} else {
						v = in.tb.Concat(v, b)
					}
				} else {
					b = buf.Arr.Kids[i*tg.width+tg.width-1-k].V.(*Term)
					if v == nil {
						v = b
					} else {
						v = in.tb.Concat(v, b)
					}
				}
			}
			if tg.isBool {
				tg.set(i, in.tb.Ne(v, in.tb.Const(8, 0)))
			} else {
				tg.set(i, v)
			}
		}
		return IfaceV{}
	}
	m["encoding/binary.Write"] = func(in *Interp, fn *ssa.Function, args []Value) Value {
		data := args[2].(IfaceV)
		tg, ok := in.binTargetOf(data, true)
		if !ok {
			in.unsupportedf("binary.Write of %v", data.T)
		}
		big := isBigEndian(args[1])
		var bs []*Term
		for i := 0; i < tg.n; i++ {
			v := tg.get(i)
			if tg.isBool {
				v = in.tb.Ite(v, in.tb.Const(8, 1), in.tb.Const(8, 0))
			}
			for k := 0; k < tg.width; k++ {
				idx := k
				if big {
					idx = tg.width - 1 - k
				}
				bs = append(bs, in.tb.Extract(idx*8+7, idx*8, v))
			}
		}
		r := in.callMethod(args[0].(IfaceV), "Write", in.byteSliceOf(bs)).(TupleV)
		return r[1]
	}
	m["encoding/binary.Size"] = func(in *Interp, fn *ssa.Function, args []Value) Value {
		tg, ok := in.binTargetOf(args[0].(IfaceV), true)
		if !ok {
			return in.tb.Const(64, ^uint64(0))
		}
		return in.tb.Const(64, uint64(tg.width*tg.n))
	}

	// CRC-32 (IEEE), computed bit-serially: mathematically the function the table / PCLMULQDQ code computes.
	crcUpdate := func(in *Interp, crc *Term, bs []*Term) *Term {
		poly := in.tb.Const(32, 0xedb88320)
		crc = in.tb.BNot(crc)
		for _, b := range bs {
			crc = in.tb.Bin(OpBXor, crc, in.tb.Zext(24, b))
			for k := 0; k < 8; k++ {
				lsb := in.tb.Extract(0, 0, crc)
				sh := in.tb.Bin(OpLshr, crc, in.tb.Const(32, 1))
				crc = in.tb.Ite(in.tb.Eq(lsb, in.tb.Const(1, 1)), in.tb.Bin(OpBXor, sh, poly), sh)
			}
		}
		return in.tb.BNot(crc)
	}
	_ = crcUpdate
	// CRC-32 is affine over GF(2): crc(m) = crc(0^n) xor XOR_{bits i set in m} (crc(e_i) xor crc(0^n)).
	// The constants are computed with the real hash/crc32; the flat XOR form is what the solver sees.
	m["hash/crc32.ChecksumIEEE"] = func(in *Interp, fn *ssa.Function, args []Value) Value {
		bs := in.byteTerms(args[0])
		n := len(bs)
		allConst := true
		buf := make([]byte, n)
		for i, b := range bs {
			if !b.IsConst() {
				allConst = false
			} else {
				buf[i] = byte(b.C)
			}
		}
		if allConst {
			return in.tb.Const(32, uint64(crc32.ChecksumIEEE(buf)))
		}
		zero := make([]byte, n)
		c0 := crc32.ChecksumIEEE(zero)
		acc := in.tb.Const(32, uint64(c0))
		for i, b := range bs {
			for k := 0; k < 8; k++ {
				zero[i] = 1 << uint(k)
				ki := crc32.ChecksumIEEE(zero) ^ c0
				zero[i] = 0
				bit := in.tb.Extract(k, k, b)
				acc = in.tb.Bin(OpBXor, acc, in.tb.Ite(in.tb.Eq(bit, in.tb.Const(1, 1)), in.tb.Const(32, uint64(ki)), in.tb.Const(32, 0)))
			}
		}
		return acc
	}

	// ---- codecs outside every claim ----
	lz := "github.com/janelia-flyem/go/golz4-updated."
	m[lz+"CompressBound"] = func(in *Interp, fn *ssa.Function, args []Value) Value {
		n := args[0].(SliceV).Len
		return in.tb.Const(64, uint64(n+n/255+16))
	}
	m[lz+"Compress"] = func(in *Interp, fn *ssa.Function, args []Value) Value {
		// contract: writes k <= len(out) bytes (k nondeterministic, >=1) such that Uncompress of exactly those bytes restores the input
		src, dst := args[0].(SliceV), args[1].(SliceV)
		in.codecSeq++
		// deterministic output size (the codec's size behaviour is outside every claim): min(len(src), len(dst)), at least 1
		k := src.Len
		if k > dst.Len {
			k = dst.Len
		}
		if k < 1 {
			k = 1
		}
		tok := make([]*Term, k)
		for i := 0; i < k; i++ {
			tok[i] = in.tb.Var(fmt.Sprintf("lz4.enc.%d[%d]", in.codecSeq, i), 8)
			in.sliceSet(dst, i, tok[i])
		}
		in.codecs = append(in.codecs, codecRec{kind: "lz4", enc: tok, dec: in.byteTerms(src)})
		in.abstractUsed = true
		return TupleV{in.tb.Const(64, uint64(k)), IfaceV{}}
	}
	m[lz+"Uncompress"] = func(in *Interp, fn *ssa.Function, args []Value) Value {
		src, dst := args[0].(SliceV), args[1].(SliceV)
		in.abstractUsed = true
		sb := in.byteTerms(src)
		for _, c := range in.codecs {
			if c.kind != "lz4" || len(c.enc) != len(sb) {
				continue
			}
			same := true
			for i := range sb {
				if sb[i] != c.enc[i] {
					same = false
				}
			}
			if same {
				if dst.Len != len(c.dec) {
					return in.newError("lz4: output size mismatch")
				}
				for i, b := range c.dec {
					in.sliceSet(dst, i, b)
				}
				return IfaceV{}
			}
		}
		// arbitrary input: either an error or arbitrary output
		in.codecSeq++
		if in.choose(2) == 0 {
			return in.newError("lz4: corrupt input")
		}
		for i := 0; i < dst.Len; i++ {
			in.sliceSet(dst, i, in.tb.Var(fmt.Sprintf("lz4.dec.%d[%d]", in.codecSeq, i), 8))
		}
		return IfaceV{}
	}
	for _, n := range []string{"image/jpeg.Decode", "image/jpeg.Encode"} {
		name := n
		m[name] = func(in *Interp, fn *ssa.Function, args []Value) Value {
			panic(cutPath{name + " (codec outside every claim)"})
		}
	}
}

// abstractStubs are contracts a harness may opt into with vh.Abstract(name) in place of the real body.
var abstractStubs map[string]intrinsicFn

func init() {
	abstractStubs = map[string]intrinsicFn{
	// snappy.Decode(dst, src): either an error or some byte string of length 0..4 (the codec is outside every claim)
	"github.com/golang/snappy.Decode": func(in *Interp, fn *ssa.Function, args []Value) Value {
		in.codecSeq++
		k := in.choose(6)
		if k == 5 {
			return TupleV{SliceV{}, in.newError("snappy: corrupt input")}
		}
		ts := make([]*Term, k)
		for i := range ts {
			ts[i] = in.tb.Var(fmt.Sprintf("snappy.dec.%d[%d]", in.codecSeq, i), 8)
		}
		return TupleV{in.byteSliceOf(ts), IfaceV{}}
	},
}
}

// ---- encoding/gob as a lossless box (wire format outside every claim) ----

type gobBox struct {
	w IfaceV // writer (encoder) or reader (decoder)
}

func (in *Interp) derefAll(v Value) Value {
	for {
		p, ok := v.(PtrV)
		if !ok || p.N == nil {
			return v
		}
		v = in.load(p)
	}
}

func registerGob(m map[string]intrinsicFn) {
	m["encoding/gob.NewEncoder"] = func(in *Interp, fn *ssa.Function, args []Value) Value {
		in.nodeSeq++
		return PtrV{N: &Node{V: gobBox{w: args[0].(IfaceV)}, T: types.Typ[types.Int], id: in.nodeSeq}}
	}
	m["encoding/gob.NewDecoder"] = m["encoding/gob.NewEncoder"]
	m["encoding/gob.Register"] = func(in *Interp, fn *ssa.Function, args []Value) Value { return TupleV{} }
	m["encoding/gob.RegisterName"] = m["encoding/gob.Register"]
	m["(*encoding/gob.Encoder).Encode"] = func(in *Interp, fn *ssa.Function, args []Value) Value {
		box := args[0].(PtrV).N.V.(gobBox)
		iv := args[1].(IfaceV)
		if iv.T == nil {
			return in.newError("gob: cannot encode nil value")
		}
		// gob flattens top-level pointers to plain values; pointers to types with their own GobEncode stay whole
		v, t := iv.V, iv.T
		for {
			pt, isPtr := t.(*types.Pointer)
			if !isPtr || in.gobCustomMethod(pt.Elem(), "GobEncode") {
				break
			}
			p, _ := v.(PtrV)
			if p.N == nil {
				return in.newError("gob: encodeReflectValue: nil element")
			}
			v, t = in.load(p), pt.Elem()
		}
		tree := in.gobBuild(v, t, 0)
		in.gobVals = append(in.gobVals, tree)
		k := len(in.gobVals) - 1
		bs := []*Term{in.tb.Const(8, 'G'), in.tb.Const(8, 'O'), in.tb.Const(8, 'B'), in.tb.Const(8, '#'),
			in.tb.Const(8, uint64(k>>24)), in.tb.Const(8, uint64(k>>16)), in.tb.Const(8, uint64(k>>8)), in.tb.Const(8, uint64(k))}
		r := in.callMethod(box.w, "Write", in.byteSliceOf(bs)).(TupleV)
		in.abstractUsed = true
		return r[1]
	}
	m["(*encoding/gob.Decoder).Decode"] = func(in *Interp, fn *ssa.Function, args []Value) Value {
		box := args[0].(PtrV).N.V.(gobBox)
		buf := in.byteSliceOf(make([]*Term, 8))
		for i := range buf.Arr.Kids {
			buf.Arr.Kids[i].V = in.tb.Const(8, 0)
		}
		r := in.callFunction(in.stdFunc("io", "ReadFull"), []Value{box.w, buf}, nil).(TupleV)
		if err := r[1].(IfaceV); err.T != nil {
			return err
		}
		var hdr [8]byte
		for i := range hdr {
			t := buf.Arr.Kids[i].V.(*Term)
			if !t.IsConst() {
				return in.newError("gob: corrupt stream (symbolic bytes are never a valid gob box)")
			}
			hdr[i] = byte(t.C)
		}
		if string(hdr[:4]) != "GOB#" {
			return in.newError("gob: bad stream")
		}
		k := int(hdr[4])<<24 | int(hdr[5])<<16 | int(hdr[6])<<8 | int(hdr[7])
		if k >= len(in.gobVals) {
			return in.newError("gob: bad stream")
		}
		tgt, ok := args[1].(IfaceV).V.(PtrV)
		if !ok || tgt.N == nil {
			return in.newError("gob: decode into non-pointer")
		}
		// follow pointers in the target down to where the value lives, allocating as gob does
		for {
			if pt, isPtr := tgt.N.T.Underlying().(*types.Pointer); isPtr && tgt.N.Kids == nil {
				cur, _ := tgt.N.V.(PtrV)
				if cur.N == nil {
					cur = PtrV{N: in.newNode(pt.Elem(), nil)}
					tgt.N.V = cur
				}
				tgt = cur
				continue
			}
			break
		}
		tree, ok := in.gobVals[k].(*gobTree)
		if !ok {
			return in.newError("gob: bad stream")
		}
		in.abstractUsed = true
		val, derr := in.gobRestore(tree, tgt.N.T)
		if e, _ := derr.(IfaceV); e.T != nil {
			return derr
		}
		in.store(tgt, val)
		return IfaceV{}
	}
}

// ---- dvid slice aliasing (unsafe reinterpretation of integer slices), little-endian ----

func (in *Interp) sliceByteOff(s SliceV) (byteOff, elemBytesN int) {
	if s.VW != 0 {
		return s.Off, s.VW
	}
	ew := elemBytes(s.Arr)
	return s.Off * ew, ew
}

func registerAlias(m map[string]intrinsicFn) {
	dv := "github.com/janelia-flyem/dvid/dvid."
	byteTo := func(n int) intrinsicFn {
		return func(in *Interp, fn *ssa.Function, args []Value) Value {
			b := args[0].(SliceV)
			if b.Len == 0 || b.Arr == nil {
				// the real code evaluates &b[0]
				in.obligation(in.tb.Bool(false), "index out of range (alias of empty slice)")
				panic(abortPath{"alias empty"})
			}
			off, ew := in.sliceByteOff(b)
			if ew != 1 {
				in.unsupportedf("AliasByteTo on non-byte slice")
			}
			// array bases are 8-byte aligned (New8ByteAlignBytes / make of >= 8 bytes)
			if b.Len%n != 0 || off%n != 0 {
				return TupleV{SliceV{}, in.newError("bad len, cap, or alignment")}
			}
			return TupleV{SliceV{Arr: b.Arr, Off: off, Len: b.Len / n, Cap: b.Len / n, VW: n}, IfaceV{}}
		}
	}
	m[dv+"AliasByteToUint64"] = byteTo(8)
	m[dv+"AliasByteToUint32"] = byteTo(4)
	m[dv+"AliasByteToUint16"] = byteTo(2)
	toByte := func(n int) intrinsicFn {
		return func(in *Interp, fn *ssa.Function, args []Value) Value {
			s := args[0].(SliceV)
			if s.Len == 0 || s.Arr == nil {
				in.obligation(in.tb.Bool(false), "index out of range (alias of empty slice)")
				panic(abortPath{"alias empty"})
			}
			off, ew := in.sliceByteOff(s)
			if ew != n {
				in.unsupportedf("AliasUint%dToByte on slice with %d-byte elements", n*8, ew)
			}
			return SliceV{Arr: s.Arr, Off: off, Len: s.Len * n, Cap: s.Len * n, VW: 1}
		}
	}
	m[dv+"AliasUint64ToByte"] = toByte(8)
	m[dv+"AliasUint32ToByte"] = toByte(4)
	m[dv+"AliasUint16ToByte"] = toByte(2)
}

// ---- encoding/json Marshal/Unmarshal as a lossless box (wire format outside every claim) ----

func registerJSONBox(m map[string]intrinsicFn) {
	m["encoding/json.Marshal"] = func(in *Interp, fn *ssa.Function, args []Value) Value {
		iv := args[0].(IfaceV)
		saveMemo := in.memo
		in.memo = map[interface{}]interface{}{}
		val := in.cloneValue(in.derefAll(iv.V))
		in.memo = saveMemo
		in.gobVals = append(in.gobVals, val)
		k := len(in.gobVals) - 1
		if in.jsonT == nil {
			in.jsonT = map[int]types.Type{}
		}
		bt, bv := iv.T, iv.V
		for bt != nil {
			p, ok := bv.(PtrV)
			if !ok || p.N == nil {
				break
			}
			pt, ok := bt.Underlying().(*types.Pointer)
			if !ok {
				break
			}
			bv, bt = in.load(p), pt.Elem()
		}
		in.jsonT[k] = bt
		bs := []*Term{in.tb.Const(8, 'J'), in.tb.Const(8, 'S'), in.tb.Const(8, 'N'), in.tb.Const(8, '#'),
			in.tb.Const(8, uint64(k>>24)), in.tb.Const(8, uint64(k>>16)), in.tb.Const(8, uint64(k>>8)), in.tb.Const(8, uint64(k))}
		in.abstractUsed = true
		return TupleV{in.byteSliceOf(bs), IfaceV{}}
	}
	m["encoding/json.Unmarshal"] = func(in *Interp, fn *ssa.Function, args []Value) Value {
		data := args[0].(SliceV)
		if data.Len != 8 {
			return in.newError("json: not a boxed value")
		}
		var hdr [8]byte
		for i := range hdr {
			t := in.sliceGet(data, i).(*Term)
			if !t.IsConst() {
				return in.newError("json: symbolic bytes are never a valid box")
			}
			hdr[i] = byte(t.C)
		}
		if string(hdr[:4]) != "JSN#" {
			return in.newError("json: bad input")
		}
		k := int(hdr[4])<<24 | int(hdr[5])<<16 | int(hdr[6])<<8 | int(hdr[7])
		if k >= len(in.gobVals) {
			return in.newError("json: bad input")
		}
		tgt, ok := args[1].(IfaceV).V.(PtrV)
		if !ok || tgt.N == nil {
			return in.newError("json: Unmarshal(non-pointer)")
		}
		if _, isTree := in.gobVals[k].(*gobTree); isTree {
			return in.newError("json: bad input")
		}
		saveMemo := in.memo
		in.memo = map[interface{}]interface{}{}
		val := in.cloneValue(in.gobVals[k])
		in.memo = saveMemo
		in.abstractUsed = true
		if st, dtp := in.jsonT[k], args[1].(IfaceV).T; st != nil && dtp != nil {
			if pt, ok := dtp.Underlying().(*types.Pointer); ok && !types.Identical(st, pt.Elem()) {
				conv, ok := in.jsonConv(val, st, pt.Elem(), in.load(tgt))
				if !ok {
					in.unsupportedf("json: conversion of boxed %v into %v", st, pt.Elem())
				}
				val = conv
			}
		}
		in.store(tgt, val)
		return IfaceV{}
	}
}

// registerProtoBox: google.golang.org/protobuf/proto Marshal/Unmarshal as a lossless box (like gob and JSON): Marshal
// snapshots the message, Unmarshal(box) overwrites the target with a copy.  A message of a different type, or bytes
// that are not a box, make the path inconclusive / return an error.  (Real protobuf encodes an all-default message as
// zero bytes; the box is always 8 bytes - harnesses keep at least one field non-default.)
func registerProtoBox(m map[string]intrinsicFn) {
	marshal := func(in *Interp, fn *ssa.Function, args []Value) Value {
		iv := args[len(args)-1].(IfaceV)
		if iv.T == nil {
			return TupleV{SliceV{}, in.newError("proto: Marshal called with nil")}
		}
		saveMemo := in.memo
		in.memo = map[interface{}]interface{}{}
		val := in.cloneValue(in.derefAll(iv.V))
		in.memo = saveMemo
		in.gobVals = append(in.gobVals, val)
		k := len(in.gobVals) - 1
		if in.jsonT == nil {
			in.jsonT = map[int]types.Type{}
		}
		in.jsonT[k] = iv.T
		bs := []*Term{in.tb.Const(8, 'P'), in.tb.Const(8, 'B'), in.tb.Const(8, 'F'), in.tb.Const(8, '#'),
			in.tb.Const(8, uint64(k>>24)), in.tb.Const(8, uint64(k>>16)), in.tb.Const(8, uint64(k>>8)), in.tb.Const(8, uint64(k))}
		in.abstractUsed = true
		return TupleV{in.byteSliceOf(bs), IfaceV{}}
	}
	unmarshal := func(in *Interp, fn *ssa.Function, args []Value) Value {
		data := args[len(args)-2].(SliceV)
		miv := args[len(args)-1].(IfaceV)
		if data.Len != 8 {
			return in.newError("proto: cannot parse invalid wire-format data")
		}
		var hdr [8]byte
		for i := range hdr {
			t := in.sliceGet(data, i).(*Term)
			if !t.IsConst() {
				return in.newError("proto: cannot parse invalid wire-format data")
			}
			hdr[i] = byte(t.C)
		}
		if string(hdr[:4]) != "PBF#" {
			return in.newError("proto: cannot parse invalid wire-format data")
		}
		k := int(hdr[4])<<24 | int(hdr[5])<<16 | int(hdr[6])<<8 | int(hdr[7])
		if k >= len(in.gobVals) {
			return in.newError("proto: cannot parse invalid wire-format data")
		}
		tgt, ok := miv.V.(PtrV)
		if !ok || tgt.N == nil {
			return in.newError("proto: Unmarshal into nil message")
		}
		if st := in.jsonT[k]; st == nil || !types.Identical(st, miv.T) {
			in.unsupportedf("proto box: message of type %v unmarshalled into %v", st, miv.T)
		}
		saveMemo := in.memo
		in.memo = map[interface{}]interface{}{}
		val := in.cloneValue(in.gobVals[k])
		in.memo = saveMemo
		in.abstractUsed = true
		in.store(tgt, val)
		return IfaceV{}
	}
	m["google.golang.org/protobuf/proto.Marshal"] = marshal
	m["google.golang.org/protobuf/proto.Unmarshal"] = unmarshal
	m["github.com/golang/protobuf/proto.Marshal"] = marshal
	m["github.com/golang/protobuf/proto.Unmarshal"] = unmarshal
}

// registerSort: sort.Slice / sort.SliceStable (reflection-based swapper in the real library) as an insertion sort that
// calls the real less closure and swaps slice elements in place.  Any order sort.Slice may produce for equal elements
// is allowed by its contract; the model produces the stable one.
func registerSort(m map[string]intrinsicFn) {
	sortSlice := func(in *Interp, fn *ssa.Function, args []Value) Value {
		iv := args[0].(IfaceV)
		sv, ok := iv.V.(SliceV)
		if !ok {
			in.unsupportedf("sort.Slice on non-slice %T", iv.V)
		}
		less := args[1].(*FuncV)
		lt := func(i, j int) bool {
			r := in.invokeFuncV(less, []Value{in.tb.Const(64, uint64(i)), in.tb.Const(64, uint64(j))})
			if t, ok := r.(*Term); ok {
				return in.branch(t)
			}
			if tv, ok := r.(TupleV); ok && len(tv) == 1 {
				return in.branch(tv[0].(*Term))
			}
			in.unsupportedf("sort.Slice: less returned %T", r)
			return false
		}
		for i := 1; i < sv.Len; i++ {
			for j := i; j > 0 && lt(j, j-1); j-- {
				a, b := in.sliceGet(sv, j), in.sliceGet(sv, j-1)
				in.sliceSet(sv, j, b)
				in.sliceSet(sv, j-1, a)
			}
		}
		return TupleV{}
	}
	m["sort.Slice"] = sortSlice
	m["sort.SliceStable"] = sortSlice
}

// ---- compress/gzip as a lossless box ------------------------------------------------------------------------------
// A Writer collects what is written and, on Close, emits an 8-byte box naming the collected bytes; a Reader over a box
// yields exactly those bytes.  A Reader over anything else (arbitrary or symbolic bytes) either fails with a header
// error or yields arbitrary bytes (a valid gzip stream can decode to anything): both outcomes are explored.

type gzipW struct {
	w   IfaceV
	buf []*Term
}

type gzipR struct {
	content []*Term
	pos     int
}

func (in *Interp) ioEOF() Value {
	p := in.prog.ImportedPackage("io")
	if p == nil {
		in.unsupportedf("io package not loaded")
	}
	g := p.Var("EOF")
	return in.loadNode(in.globalNode(g))
}

func registerGzipBox(m map[string]intrinsicFn) {
	newW := func(in *Interp, w Value) Value {
		in.nodeSeq++
		return PtrV{N: &Node{V: &gzipW{w: w.(IfaceV)}, T: types.Typ[types.Int], id: in.nodeSeq}}
	}
	m["compress/gzip.NewWriter"] = func(in *Interp, fn *ssa.Function, args []Value) Value { return newW(in, args[0]) }
	m["compress/gzip.NewWriterLevel"] = func(in *Interp, fn *ssa.Function, args []Value) Value {
		return TupleV{newW(in, args[0]), IfaceV{}}
	}
	m["(*compress/gzip.Writer).Write"] = func(in *Interp, fn *ssa.Function, args []Value) Value {
		w := args[0].(PtrV).N.V.(*gzipW)
		bs := in.byteTerms(args[1])
		w.buf = append(w.buf, bs...)
		return TupleV{in.tb.Const(64, uint64(len(bs))), IfaceV{}}
	}
	m["(*compress/gzip.Writer).Flush"] = func(in *Interp, fn *ssa.Function, args []Value) Value { return IfaceV{} }
	m["(*compress/gzip.Writer).Close"] = func(in *Interp, fn *ssa.Function, args []Value) Value {
		w := args[0].(PtrV).N.V.(*gzipW)
		in.gzVals = append(in.gzVals, append([]*Term{}, w.buf...))
		k := len(in.gzVals) - 1
		bs := []*Term{in.tb.Const(8, 'G'), in.tb.Const(8, 'Z'), in.tb.Const(8, 'P'), in.tb.Const(8, '#'),
			in.tb.Const(8, uint64(k>>24)), in.tb.Const(8, uint64(k>>16)), in.tb.Const(8, uint64(k>>8)), in.tb.Const(8, uint64(k))}
		in.abstractUsed = true
		r := in.callMethod(w.w, "Write", in.byteSliceOf(bs)).(TupleV)
		return r[1]
	}
	m["compress/gzip.NewReader"] = func(in *Interp, fn *ssa.Function, args []Value) Value {
		src := args[0].(IfaceV)
		var raw []*Term
		for iter := 0; iter < 64; iter++ {
			buf := in.byteSliceOf(make([]*Term, 0))
			arr := in.newArrayNode(types.Typ[types.Uint8], 64)
			buf = SliceV{Arr: arr, Len: 64, Cap: 64}
			r := in.callMethod(src, "Read", buf).(TupleV)
			n := in.concInt(r[0], "gzip source Read n")
			for i := 0; i < n; i++ {
				raw = append(raw, in.sliceGet(buf, i).(*Term))
			}
			if e, ok := r[1].(IfaceV); (ok && e.T != nil) || n == 0 {
				break
			}
		}
		in.abstractUsed = true
		in.nodeSeq++
		mk := func(content []*Term) Value {
			return TupleV{PtrV{N: &Node{V: &gzipR{content: content}, T: types.Typ[types.Int], id: in.nodeSeq}}, IfaceV{}}
		}
		if len(raw) == 8 {
			allConst := true
			var hdr [8]byte
			for i, t := range raw {
				if !t.IsConst() {
					allConst = false
					break
				}
				hdr[i] = byte(t.C)
			}
			if allConst && string(hdr[:4]) == "GZP#" {
				k := int(hdr[4])<<24 | int(hdr[5])<<16 | int(hdr[6])<<8 | int(hdr[7])
				if k < len(in.gzVals) {
					return mk(append([]*Term{}, in.gzVals[k]...))
				}
			}
		}
		// not a box: a header error, or (a valid stream can hold anything) arbitrary decoded bytes
		switch in.choose(3) {
		case 0:
			return TupleV{PtrV{}, in.newError("gzip: invalid header")}
		case 1:
			return mk(nil)
		}
		in.codecSeq++
		var content []*Term
		for i := 0; i < 16; i++ {
			content = append(content, in.tb.Var(fmt.Sprintf("gzip.dec.%d[%d]", in.codecSeq, i), 8))
		}
		return mk(content)
	}
	m["(*compress/gzip.Reader).Read"] = func(in *Interp, fn *ssa.Function, args []Value) Value {
		r := args[0].(PtrV).N.V.(*gzipR)
		dst := args[1].(SliceV)
		if r.pos >= len(r.content) {
			return TupleV{in.tb.Const(64, 0), in.ioEOF()}
		}
		n := 0
		for n < dst.Len && r.pos < len(r.content) {
			in.sliceSet(dst, n, r.content[r.pos])
			n++
			r.pos++
		}
		return TupleV{in.tb.Const(64, uint64(n)), IfaceV{}}
	}
	m["(*compress/gzip.Reader).Close"] = func(in *Interp, fn *ssa.Function, args []Value) Value { return IfaceV{} }
}
