package main

// gosym: bounded symbolic execution of the real DVID code (go/ssa -> SMT).
//
//   gosym check -prop C06 -tier quick      run a property's harness instances, replay, evidence, exit code
//   gosym run -func <pkg.Func> -params 1,2 run one harness instance (development)

import (
	"sync/atomic"
	"encoding/json"
	"flag"
	"fmt"
	"os"
	"path/filepath"
	"runtime"
	"runtime/pprof"
	"sort"
	"strconv"
	"strings"
	"sync"
	"time"

	"golang.org/x/tools/go/packages"
	"golang.org/x/tools/go/ssa"
	"golang.org/x/tools/go/ssa/ssautil"
)

const (
	modPath    = "github.com/janelia-flyem/dvid"
	verifDir   = "/verif"
	harnessDir = "/verif/harness"
	buildTags  = "badger verif noasm"
)

// repoDir is /repo unless GOSYM_REPO points at a scratch worktree (used only to try seeded changes in parallel).
var repoDir = envOr("GOSYM_REPO", "/repo")

// outDir receives evidence files and work directories (default /verif).
var outDir = envOr("GOSYM_OUT", "/verif")

func envOr(k, d string) string {
	if v := os.Getenv(k); v != "" {
		return v
	}
	return d
}

// ---- registry --------------------------------------------------------------------

type HarnessSpec struct {
	Func     string  `json:"func"` // e.g. "storage.VerifC06_Order" (path relative to module)
	Quick    [][]int `json:"quick"`
	Thorough [][]int `json:"thorough"`
	Unwind   int     `json:"unwind,omitempty"`
	MaxSteps int     `json:"max_steps,omitempty"`
	MaxPaths int     `json:"max_paths,omitempty"`
	Timeout  int     `json:"timeout_s,omitempty"`
	Note     string  `json:"note,omitempty"`
	Reach    []string `json:"reach,omitempty"` // reach tags that must be witnessed (default: "end")
	Repeat   int     `json:"replay_repeat,omitempty"` // native replay attempts (map-order dependent harnesses)
	Schedule bool    `json:"schedule,omitempty"`      // counterexamples are interleavings: replayed in the engine, not natively
}

type PropSpec struct {
	Harnesses   []HarnessSpec `json:"harnesses"`
	Explanation string        `json:"explanation"`
	Bounds      []string      `json:"bounds"`
	Assumptions []string      `json:"assumptions"`
}

func loadRegistry() map[string]*PropSpec {
	data, err := os.ReadFile(filepath.Join(harnessDir, "registry.json"))
	if err != nil {
		fatal("registry: %v", err)
	}
	reg := map[string]*PropSpec{}
	if err := json.Unmarshal(data, &reg); err != nil {
		fatal("registry: %v", err)
	}
	return reg
}

func fatal(format string, a ...interface{}) {
	fmt.Fprintf(os.Stderr, "gosym: "+format+"\n", a...)
	os.Exit(2)
}

// ---- overlay and loading ----------------------------------------------------------------

// buildOverlay maps /verif/harness/<rel>/zz_*.go to /repo/<rel>/zz_*.go and the vh package to /repo/zzverif/vh.
func buildOverlay(extra map[string][]byte) (map[string][]byte, []string) {
	ov := map[string][]byte{}
	pkgs := map[string]bool{}
	filepath.Walk(harnessDir, func(p string, info os.FileInfo, err error) error {
		if err != nil || info.IsDir() || !strings.HasSuffix(p, ".go") {
			return nil
		}
		rel, _ := filepath.Rel(harnessDir, p)
		data, err := os.ReadFile(p)
		if err != nil {
			return nil
		}
		if strings.HasPrefix(rel, "vh/") {
			ov[filepath.Join(repoDir, "zzverif", rel)] = data
			return nil
		}
		if strings.HasPrefix(rel, "_") {
			return nil
		}
		ov[filepath.Join(repoDir, rel)] = data
		pkgs[filepath.Dir(rel)] = true
		return nil
	})
	// model of the Badger library: replaces every non-test file of the module's root package
	if model, err := os.ReadFile(filepath.Join(harnessDir, "_badgermodel", "badger.go")); err == nil {
		for virt, content := range badgerOverlay(model) {
			ov[virt] = content
		}
	}
	for k, v := range extra {
		ov[k] = v
	}
	var list []string
	for p := range pkgs {
		list = append(list, p)
	}
	sort.Strings(list)
	return ov, list
}

const badgerModDir = "/root/go/pkg/mod/github.com/dgraph-io/badger/v3@v3.2103.2"

// badgerOverlay maps the model over the real package: one file carries the model, all others become empty stubs.
func badgerOverlay(model []byte) map[string][]byte {
	out := map[string][]byte{}
	files, _ := filepath.Glob(filepath.Join(badgerModDir, "*.go"))
	first := true
	for _, f := range files {
		if strings.HasSuffix(f, "_test.go") {
			continue
		}
		if first {
			out[f] = model
			first = false
		} else {
			out[f] = []byte("package badger\n")
		}
	}
	return out
}

func loadProgram(ov map[string][]byte, patterns []string) (*ssa.Program, []*packages.Package) {
	cfg := &packages.Config{
		Mode:       packages.LoadAllSyntax,
		Dir:        repoDir,
		BuildFlags: []string{"-tags", buildTags},
		Overlay:    ov,
		Env:        append(os.Environ(), "GOFLAGS=-mod=mod", "GOPROXY=off", "GOTOOLCHAIN=local", "CGO_ENABLED=1"),
	}
	pkgs, err := packages.Load(cfg, patterns...)
	if err != nil {
		fatal("load: %v", err)
	}
	nerr := 0
	packages.Visit(pkgs, nil, func(p *packages.Package) {
		for _, e := range p.Errors {
			if strings.HasPrefix(p.PkgPath, modPath) || strings.Contains(p.PkgPath, "badger") {
				fmt.Fprintf(os.Stderr, "load error: %s: %v\n", p.PkgPath, e)
				nerr++
			}
		}
	})
	if nerr > 0 {
		fatal("%d load errors (harness or repo does not compile)", nerr)
	}
	prog, _ := ssautil.AllPackages(pkgs, ssa.InstantiateGenerics)
	prog.Build()
	return prog, pkgs
}

// ---- running one instance ------------------------------------------------------------------

type InstanceResult struct {
	Func        string
	Params      []int
	Paths       int
	Completed   int
	Aborted     int
	Inconclusive []string
	Wall        time.Duration
	Queries     int
	SolverTime  time.Duration
	Sat, Unsat, Unknown int
	SolverErrors []string
	ByTag map[string]int
	TimeByTag map[string]time.Duration
	Cross     []CrossResult
}

var logSeq int64

type runCfg struct {
	unwind, maxSteps, maxPaths int
	timeout                    time.Duration
	witnessPerInstance         int
	solver                     string
	solverTimeoutMs            int
	logDir                     string
	logCap                     int           // transcript cap per instance (bytes) for the cross-solver re-discharge
	crossSolvers               []string      // other solvers that re-decide the recorded queries
	crossWall                  time.Duration // wall cap per solver and instance
}

func findFunc(prog *ssa.Program, full string) *ssa.Function {
	i := strings.LastIndex(full, ".")
	pkgPath, name := full[:i], full[i+1:]
	if !strings.HasPrefix(pkgPath, modPath) {
		pkgPath = modPath + "/" + pkgPath
	}
	p := prog.ImportedPackage(pkgPath)
	if p == nil {
		for _, q := range prog.AllPackages() {
			if q.Pkg.Path() == pkgPath {
				p = q
			}
		}
	}
	if p == nil {
		return nil
	}
	return p.Func(name)
}

func runInstance(sh *Shared, fn *ssa.Function, params []int, cfg runCfg) (res InstanceResult) {
	start := time.Now()
	res = InstanceResult{Func: fn.String(), Params: params}
	logPath := ""
	if cfg.logDir != "" {
		// package-qualified: harnesses of different packages may share a function name
		q := strings.NewReplacer("/", "_", "(", "", ")", "", "*", "").Replace(fn.String())
		logPath = filepath.Join(cfg.logDir, fmt.Sprintf("%s-%s-%d.smt2", q, joinInts(params, "_"), atomic.AddInt64(&logSeq, 1)))
	}
	sol, err := NewSolver(cfg.solver, cfg.solverTimeoutMs, logPath)
	if err != nil {
		res.Inconclusive = append(res.Inconclusive, "cannot start solver: "+err.Error())
		return res
	}
	sol.LogCap = cfg.logCap
	closed := false
	defer func() {
		if !closed {
			sol.Close()
		}
	}()
	if len(cfg.crossSolvers) > 0 && logPath != "" {
		defer func() {
			sol.Close()
			closed = true
			for _, k := range cfg.crossSolvers {
				res.Cross = append(res.Cross, crossCheck(k, logPath, 10000, cfg.crossWall))
			}
			os.Remove(logPath)
		}()
	}
	tb := NewTB()
	ex := &Explorer{}
	deadline := start.Add(cfg.timeout)
	// last resort: an instance that neither finishes nor notices its deadline (a hang inside the engine itself) ends the
	// whole run as inconclusive instead of blocking it
	hang := time.AfterFunc(cfg.timeout+4*time.Minute, func() {
		fmt.Printf("INCONCLUSIVE: %s%v: no progress %v after its deadline (engine hang)\n", fn.Name(), params, 4*time.Minute)
		os.Exit(2)
	})
	defer hang.Stop()
	witnesses := 0
	ph := &pristineHeap{globals: map[*ssa.Global]*Node{}, initDone: map[*ssa.Package]bool{}}
	for {
		tb.Reset()
		in := &Interp{prog: sh.prog, tb: tb, sol: sol, ex: ex, sh: sh,
			globals: map[*ssa.Global]*Node{}, pristine: ph, memo: map[interface{}]interface{}{}, nameCount: map[string]int{},
			params: params, harness: fn.String(), deadline: deadline, maxSteps: cfg.maxSteps, unwind: cfg.unwind, maxCallDepth: 200, reached: map[string]bool{}}
		ex.pos = 0
		sol.Push()
		outcome := runPath(in, fn)
		switch outcome.kind {
		case "ok":
			res.Completed++
			if witnesses < cfg.witnessPerInstance {
				if w, ok := in.makeWitness(); ok {
					sh.mu.Lock()
					sh.witnesses = append(sh.witnesses, w)
					sh.mu.Unlock()
					witnesses++
				}
			}
		case "abort":
			res.Aborted++
		case "inconclusive":
			res.Inconclusive = append(res.Inconclusive, outcome.why)
		}
		if in.tainted != "" {
			res.Inconclusive = append(res.Inconclusive, in.tainted)
		}
		sol.Pop()
		res.Paths++
		if len(sol.Errors) > 0 {
			res.Inconclusive = append(res.Inconclusive, "solver error: "+sol.Errors[0])
			break
		}
		if !ex.advance() {
			break
		}
		if res.Paths >= cfg.maxPaths {
			res.Inconclusive = append(res.Inconclusive, fmt.Sprintf("path budget %d exhausted", cfg.maxPaths))
			break
		}
		if time.Now().After(deadline) {
			res.Inconclusive = append(res.Inconclusive, fmt.Sprintf("instance timeout %v", cfg.timeout))
			break
		}
		if len(res.Inconclusive) > 20 {
			break
		}
	}
	res.Wall = time.Since(start)
	res.Queries, res.SolverTime = sol.NQueries, sol.Time
	res.Sat, res.Unsat, res.Unknown = sol.NSat, sol.NUnsat, sol.NUnknown
	res.SolverErrors = sol.Errors
	res.ByTag, res.TimeByTag = sol.ByTag, sol.TimeByTag
	return res
}

type pathOutcome struct {
	kind string // ok | abort | inconclusive
	why  string
}

func runPath(in *Interp, fn *ssa.Function) (out pathOutcome) {
	defer in.killThreads()
	defer func() {
		if r := recover(); r != nil {
			switch x := r.(type) {
			case abortPath:
				out = pathOutcome{"abort", x.why}
			case unsupported:
				out = pathOutcome{"inconclusive", "unsupported: " + x.what}
			case cutPath:
				in.sh.stats.add("paths_cut", 1)
				in.sh.noteCut(x.why)
				out = pathOutcome{"cut", x.why}
			case budgetExceeded:
				out = pathOutcome{"inconclusive", "budget: " + x.what + " @ " + in.posString()}
			case *goPanic:
				// escaped a Try: treat as a violation already recorded? (tryDepth > 0 only)
				out = pathOutcome{"inconclusive", "panic escaped: " + x.msg}
			default:
				buf := make([]byte, 1<<14)
				n := runtime.Stack(buf, false)
				if os.Getenv("GOSYM_TRACE") != "" {
					fmt.Fprintf(os.Stderr, "engine error: %v\n%s\n", r, buf[:n])
				}
				out = pathOutcome{"inconclusive", fmt.Sprintf("engine error: %v @ %s in %s", r, in.posString(), in.siteFunc())}
			}
		}
	}()
	in.callFunction(fn, nil, nil)
	in.sh.stats.add("paths_completed", 1)
	return pathOutcome{"ok", ""}
}

func (in *Interp) makeWitness() (Witness, bool) {
	if r := in.sol.Check(); r != Sat {
		return Witness{}, false
	}
	inputs, err := in.modelInputs()
	if err != nil {
		return Witness{}, false
	}
	env := map[string]uint64{}
	for _, iv := range in.inputs {
		s := inputs[iv.Name]
		if iv.Kind == "u" {
			v, _ := strconv.ParseUint(s, 10, 64)
			env[iv.Name] = v
		} else {
			for i := range iv.Terms {
				b, _ := strconv.ParseUint(s[1+2*i:3+2*i], 16, 8)
				env[fmt.Sprintf("%s[%d]", iv.Name, i)] = b
			}
		}
	}
	memo := map[*Term]uint64{}
	var exp []string
	for _, o := range in.observations {
		exp = append(exp, fmt.Sprintf("%s=%d", o.Name, Eval(o.T, env, memo)))
	}
	return Witness{Harness: in.harness, Params: in.params, Inputs: inputs, Expected: exp}, true
}

func joinInts(xs []int, sep string) string {
	s := make([]string, len(xs))
	for i, x := range xs {
		s[i] = strconv.Itoa(x)
	}
	return strings.Join(s, sep)
}

// ---- CLI -------------------------------------------------------------------------------------

func main() {
	if len(os.Args) < 2 {
		fatal("usage: gosym check|run ...")
	}
	switch os.Args[1] {
	case "check":
		cmdCheck(os.Args[2:])
	case "run":
		cmdRun(os.Args[2:])
	case "crosscheck": // gosym crosscheck <transcript.smt2>: re-decide a recorded transcript on the other solvers
		for _, k := range []string{"z3-new", "cvc5"} {
			b, _ := json.Marshal(crossCheck(k, os.Args[2], 10000, 10*time.Minute))
			fmt.Println(string(b))
		}
	default:
		fatal("unknown sub-command %s", os.Args[1])
	}
}

func parseParams(s string) []int {
	if s == "" {
		return nil
	}
	var out []int
	for _, f := range strings.Split(s, ",") {
		n, err := strconv.Atoi(strings.TrimSpace(f))
		if err != nil {
			fatal("bad params %q", s)
		}
		out = append(out, n)
	}
	return out
}

func cmdRun(args []string) {
	fs := flag.NewFlagSet("run", flag.ExitOnError)
	fname := fs.String("func", "", "harness function, e.g. storage.VerifC06_Order")
	ps := fs.String("params", "", "comma-separated shape parameters")
	unwind := fs.Int("unwind", 10000, "loop bound per activation")
	maxSteps := fs.Int("steps", 50_000_000, "instruction budget per path")
	maxPaths := fs.Int("paths", 1_000_000, "path budget")
	timeout := fs.Int("timeout", 600, "seconds")
	logDir := fs.String("log", "", "directory for solver transcripts")
	solver := fs.String("solver", "z3", "z3 | z3-new | cvc5")
	prof := fs.String("cpuprofile", "", "write CPU profile")
	fs.Parse(args)
	if *prof != "" {
		f, _ := os.Create(*prof)
		pprof.StartCPUProfile(f)
		defer pprof.StopCPUProfile()
	}
	ov, pkgs := buildOverlay(nil)
	var pats []string
	for _, p := range pkgs {
		pats = append(pats, "./"+p)
	}
	pats = append(pats, "./zzverif/vh")
	t0 := time.Now()
	prog, _ := loadProgram(ov, pats)
	fmt.Fprintf(os.Stderr, "loaded+built SSA in %v\n", time.Since(t0))
	fn := findFunc(prog, *fname)
	if fn == nil {
		fatal("harness %s not found", *fname)
	}
	sh := NewShared(prog)
	res := runInstance(sh, fn, parseParams(*ps), runCfg{unwind: *unwind, maxSteps: *maxSteps, maxPaths: *maxPaths, timeout: time.Duration(*timeout) * time.Second, solver: *solver, solverTimeoutMs: 30000, logDir: *logDir, witnessPerInstance: 2})
	fmt.Printf("paths=%d completed=%d aborted=%d queries=%d (sat %d unsat %d unknown %d) solver=%v wall=%v\n", res.Paths, res.Completed, res.Aborted, res.Queries, res.Sat, res.Unsat, res.Unknown, res.SolverTime.Round(time.Millisecond), res.Wall.Round(time.Millisecond))
	if debugSites {
		type kv struct {
			k string
			n int
		}
		var l []kv
		for k, n := range sh.stats.m {
			if strings.HasPrefix(k, "site ") {
				l = append(l, kv{k, n})
			}
		}
		sort.Slice(l, func(i, j int) bool { return l[i].n > l[j].n })
		for i, e := range l {
			if i < 15 {
				fmt.Printf("  %6d %s\n", e.n, e.k)
			}
		}
	}
	fmt.Printf("queries by kind: %v time: %v\n", res.ByTag, res.TimeByTag)
	for _, s := range res.Inconclusive {
		fmt.Printf("INCONCLUSIVE: %s\n", s)
	}
	for _, v := range sh.violations {
		b, _ := json.Marshal(v)
		fmt.Printf("CANDIDATE: %s\n", b)
	}
	fmt.Printf("obligations=%d discharged=%d reach=%v\n", sh.stats.get("obligations"), sh.stats.get("discharged"), sortedKeys(sh.reach))
	for _, w := range sh.witnesses {
		b, _ := json.Marshal(w)
		fmt.Printf("WITNESS: %s\n", b)
	}
}

var _ = sync.Mutex{}
