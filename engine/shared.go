package main

import (
	"fmt"
	"sort"
	"strings"
	"sync"

	"golang.org/x/tools/go/ssa"
)

type Options struct {
	MaxIteChain int
	AllocCap    int
	AppendSlack bool
	MaxPermute  int
}

type statCounter struct {
	mu sync.Mutex
	m  map[string]int
}

func (s *statCounter) add(k string, n int) {
	s.mu.Lock()
	s.m[k] += n
	s.mu.Unlock()
}
func (s *statCounter) get(k string) int {
	s.mu.Lock()
	defer s.mu.Unlock()
	return s.m[k]
}

// Shared is the state shared by all workers of one check run.
type Shared struct {
	prog       *ssa.Program
	opts       Options
	intr       map[string]intrinsicFn
	intrCache  sync.Map // *ssa.Function -> intrinsicFn or nil marker
	infoCache  sync.Map // *ssa.Function -> *fnInfo
	stats      statCounter
	errorsNew  *ssa.Function
	initAllow  map[string]bool
	mu         sync.Mutex
	violations []Violation
	vioSeen    map[string]bool
	funcs      map[string]int // function -> instruction count (encoded)
	reach      map[string]bool
	asserts    map[string]bool // harness|label -> seen with symbolic condition
	inconcl    []string
	samples    []string
	witnesses  []Witness
	cuts       map[string]int
	allocs     map[string]int
}

type Witness struct {
	Harness  string            `json:"harness"`
	Params   []int             `json:"params"`
	Inputs   map[string]string `json:"inputs"`
	Expected []string          `json:"expected"` // observations
}

func NewShared(prog *ssa.Program) *Shared {
	sh := &Shared{prog: prog, intr: baseIntrinsics(), vioSeen: map[string]bool{}, funcs: map[string]int{}, reach: map[string]bool{}, asserts: map[string]bool{}}
	sh.stats.m = map[string]int{}
	sh.opts = Options{MaxIteChain: 256, AllocCap: 1 << 26, MaxPermute: 4}
	registerModelIntrinsics(sh.intr)
	registerStdlib(sh.intr)
	registerGob(sh.intr)
	registerFiles(sh.intr)
	registerAlias(sh.intr)
	registerJSONBox(sh.intr)
	registerProtoBox(sh.intr)
	registerSort(sh.intr)
	registerGzipBox(sh.intr)
	if p := prog.ImportedPackage("errors"); p != nil {
		sh.errorsNew = p.Func("New")
	}
	return sh
}

type nilIntrinsic struct{}

func (sh *Shared) intrinsic(fn *ssa.Function) intrinsicFn {
	if v, ok := sh.intrCache.Load(fn); ok {
		if f, ok := v.(intrinsicFn); ok {
			return f
		}
		return nil
	}
	name := fn.String()
	if fn.Origin() != nil {
		name = fn.Origin().String()
	}
	f, ok := sh.intr[name]
	if ok {
		sh.intrCache.Store(fn, f)
		return f
	}
	sh.intrCache.Store(fn, nilIntrinsic{})
	return nil
}

func (sh *Shared) funcInfo(fn *ssa.Function) *fnInfo {
	if v, ok := sh.infoCache.Load(fn); ok {
		return v.(*fnInfo)
	}
	fi := buildFnInfo(fn)
	v, _ := sh.infoCache.LoadOrStore(fn, fi)
	return v.(*fnInfo)
}

func (sh *Shared) noteFunc(fn *ssa.Function) {
	name := fn.String()
	sh.mu.Lock()
	if _, ok := sh.funcs[name]; !ok {
		sh.funcs[name] = sh.funcInfo(fn).instr
	}
	sh.mu.Unlock()
}

// wantInit: whether package-level variable initialisers of this package are executed on first touch.
func (sh *Shared) wantInit(path string) bool {
	return true
}

func (sh *Shared) addViolation(v Violation) {
	key := v.Harness + "|" + v.Kind + "|" + v.Label
	sh.mu.Lock()
	defer sh.mu.Unlock()
	if sh.vioSeen[key] {
		return
	}
	sh.vioSeen[key] = true
	sh.violations = append(sh.violations, v)
}

func (sh *Shared) noteReach(h, tag string) {
	sh.mu.Lock()
	sh.reach[h+"|"+tag] = true
	sh.mu.Unlock()
}

func (sh *Shared) noteAssert(h, label string, symbolic bool) {
	sh.mu.Lock()
	k := h + "|" + label
	sh.asserts[k] = sh.asserts[k] || symbolic
	sh.mu.Unlock()
}

func (sh *Shared) noteAlloc(site string) {
	sh.mu.Lock()
	if sh.allocs == nil {
		sh.allocs = map[string]int{}
	}
	sh.allocs[site]++
	sh.mu.Unlock()
}

func (sh *Shared) noteCut(why string) {
	sh.mu.Lock()
	if sh.cuts == nil {
		sh.cuts = map[string]int{}
	}
	sh.cuts[why]++
	sh.mu.Unlock()
}

func (sh *Shared) noteInconclusive(why string) {
	sh.mu.Lock()
	if len(sh.inconcl) < 50 {
		sh.inconcl = append(sh.inconcl, why)
	}
	sh.mu.Unlock()
}

func (sh *Shared) sampleObligation(in *Interp, label string, c *Term) {
	sh.mu.Lock()
	defer sh.mu.Unlock()
	if len(sh.samples) >= 6 {
		return
	}
	for _, s := range sh.samples {
		if strings.HasPrefix(s, in.harness+" "+fmt.Sprint(in.params)+" "+label) {
			return
		}
	}
	s := c.String()
	if len(s) > 400 {
		s = s[:400] + "…"
	}
	sh.samples = append(sh.samples, fmt.Sprintf("%s %v %s: unsat(path ∧ ¬%s)", in.harness, in.params, label, s))
}

func (sh *Shared) funcList() []string {
	sh.mu.Lock()
	defer sh.mu.Unlock()
	var out []string
	for k, n := range sh.funcs {
		out = append(out, fmt.Sprintf("%s (%d instr)", k, n))
	}
	sort.Strings(out)
	return out
}
